"""C17 - HTML state pseudo-classes follow their definitions and partition laws."""
import zlib
import warnings
import bs4
import lib, e1, campaign, matchcheck, gen_selectors
from lib import Check
from oracles import selspec

PID = 'C17'
CONTROLS = {'input', 'button', 'select', 'textarea', 'fieldset', 'optgroup', 'option'}
RANGE_TYPES = {'date', 'month', 'week', 'time', 'datetime-local', 'number', 'range'}


def lower(s):
    return selspec.ascii_lower(s)


def attr(el, name):
    for k, v in el.attrs.items():
        if lower(str(k)) == name:
            return v if isinstance(v, str) else ' '.join(v) if isinstance(v, list) else str(v)
    return None


def is_iframe(el):
    # only an HTML iframe is a document boundary (a foreign element that happens to be called iframe is not)
    return lower(el.name) == 'iframe' and getattr(el, 'namespace', None) in (None, 'http://www.w3.org/1999/xhtml')


def own_doc_parent(el):
    """parent within the element's own document (None at an iframe boundary or at the top)"""
    p = el.parent
    if p is None or isinstance(p, bs4.BeautifulSoup) or is_iframe(p):
        return None
    return p


def form_of(el):
    p = own_doc_parent(el)
    while p is not None:
        if lower(p.name) == 'form':
            return p
        p = own_doc_parent(p)
    return None


def doc_top(el):
    p, last = el, el
    while True:
        q = own_doc_parent(p)
        if q is None:
            return p
        p = q


def descendants_own_doc(el):
    out = []

    def walk(e):
        for c in e.contents:
            if isinstance(c, bs4.Tag):
                out.append(c)
                if not is_iframe(c):
                    walk(c)
    if not is_iframe(el):
        walk(el)
    return out


def spec_default(el, checked):
    """:default = :checked, or the first submit button of its form (document order, own document, not inside a nested form)"""
    if id(el) in checked:
        return True
    f = form_of(el)
    if f is None:
        return False
    for d in descendants_own_doc(f):
        nm = lower(d.name)
        if nm == 'form':
            return None          # nested forms: not judged (HTML forbids them; the code stops scanning)
        if nm in ('input', 'button') and lower(attr(d, 'type') or '') == 'submit':
            return d is el
    return False


def spec_indeterminate(el):
    nm = lower(el.name)
    t = lower(attr(el, 'type') or '')
    if nm == 'input' and t == 'checkbox' and attr(el, 'indeterminate') is not None:
        return True
    if nm == 'progress' and attr(el, 'value') is None:
        return True
    if nm == 'input' and t == 'radio' and attr(el, 'checked') is None:
        name = attr(el, 'name')
        if name is None or name == '':
            return True
        f = form_of(el)
        if f is not None:
            members = descendants_own_doc(f)
        else:
            # outside any form the group is document-wide: every top-level tree of the document object
            top = doc_top(el)
            tops = [c for c in top.parent.contents if isinstance(c, bs4.Tag)] if isinstance(top.parent, bs4.BeautifulSoup) else [top]
            members = [x for t_ in tops for x in [t_] + descendants_own_doc(t_)]
        group = [d for d in members if lower(d.name) == 'input' and lower(attr(d, 'type') or '') == 'radio'
                 and attr(d, 'name') == name and form_of(d) is f]
        return not any(attr(d, 'checked') is not None for d in group)
    return False


def run(tier, seed):
    ck = Check(PID, tier, seed)
    rnd = ck.rnd
    ck.proof = lib.proof_step('props/C17.v', matchcheck.MATCH_CONE + ['DirFacts.v'] + ['FormFacts.v'])
    ck.broken += ck.proof['broken']
    if not ck.proof['driver_ok']:
        ck.notes['driver'] = 'unavailable: model-side runs skipped, searching with the implementation-side oracles only'
    import soupsieve as sv
    n = 220 if tier == 'quick' else 3000
    scs = []
    names = [':enabled', ':disabled', ':required', ':optional', ':read-write', ':read-only', ':in-range', ':out-of-range', ':link',
             ':any-link', ':checked', ':default', ':indeterminate', ':placeholder-shown', ':dir(ltr)', ':dir(rtl)', ':root']
    def range_docs(k):
        # inputs of the range types with structured min / max / value, years beyond 9999 included (valid HTML date strings)
        from props import C18 as _C18
        import e1 as _e1, gen_trees as _gt
        out = []
        for _ in range(k):
            inputs = []
            for _j in range(8):
                t_ = rnd.choice(['date', 'month', 'datetime-local', 'date', 'time', 'number', 'week'])
                def val():
                    if t_ in ('date', 'month', 'datetime-local') and rnd.random() < 0.5:
                        y_ = rnd.choice([9999, 10000, 10001, 12345, 99999, 100000])
                        return {'date': f'{y_}-{rnd.choice(["01-01", "12-31", "02-29", "06-15"])}', 'month': f'{y_}-{rnd.choice(["01", "12", "13"])}',
                                'datetime-local': f'{y_}-01-01T{rnd.choice(["00:00", "23:59"])}'}[t_]
                    v_ = _C18.gen_value(rnd, t_)
                    return v_ if not (t_ == 'week' and not v_[:4].isdigit()) else '2020-W10'
                a_ = {'type': t_}
                for nm_ in rnd.sample(['min', 'max', 'value'], rnd.choice([2, 3])):
                    a_[nm_] = val()
                if t_ == 'week':
                    a_ = {k_: (v_ if k_ == 'type' or (v_[:4].isdigit() and 1000 <= int(v_[:4]) <= 9999 and v_[4:6] == '-W') else '2021-W05') for k_, v_ in a_.items()}
                # the type keyword in another ASCII case (HTML: matched case-insensitively); chosen by a hash, the PRNG stream is untouched
                h_ = zlib.crc32(repr(sorted(a_.items())).encode())
                if h_ % 3 == 0:
                    a_['type'] = [t_.upper(), t_.title(), t_[:1] + t_[1:].upper()][(h_ >> 4) % 3]
                inputs.append(('e', 'input', a_, []))
            ab_ = ('e', 'html', {}, [('e', 'head', {}, []), ('e', 'body', {}, [('e', 'form', {}, inputs)])])
            out.append(_e1.Scenario(_gt.build_api([ab_]) if rnd.random() < 0.5 else _gt.parse_with(_gt.to_markup(ab_), 'html.parser'), 'forms/range-directed'))
        return out
    for pi_, profile in enumerate(('forms', 'forms', 'langdir')):
        for sc in campaign.build(rnd, profile, n // 3 + 1, 0, modes=['api', 'html.parser', 'lxml', 'html5lib']) + (range_docs(n // 8) if pi_ == 0 else []):   # HTML documents only
            top = sc.top
            D = selspec.Doc(top)
            if not D.is_html or not D.is_docobj:
                continue
            elements = list(top.find_all(True))
            with warnings.catch_warnings():
                warnings.simplefilter('ignore')
                try:
                    R = {nm: set(id(e) for e in sv.select(nm, top)) for nm in names}
                except Exception as ex:
                    ck.notes['skipped_' + type(ex).__name__] = ck.notes.get('skipped_' + type(ex).__name__, 0) + 1
                    continue
            allids = set(id(e) for e in elements)
            html_els = set(id(e) for e in elements if D.el_ns(e) == selspec.XHTML)
            controls = set(id(e) for e in elements if lower(e.name) in CONTROLS and id(e) in html_els)
            hidden = set(id(e) for e in elements if lower(e.name) == 'input' and lower(attr(e, 'type') or '') == 'hidden')
            ita = set(id(e) for e in elements if lower(e.name) in ('input', 'select', 'textarea') and id(e) in html_els)
            from oracles import calendar_spec as cal
            ranged = set()
            for e in elements:
                if lower(e.name) == 'input' and id(e) in html_els:
                    t = lower(attr(e, 'type') or '')
                    if t in RANGE_TYPES and (attr(e, 'min') is not None or attr(e, 'max') is not None):
                        try:
                            if cal.parse(t, attr(e, 'min'), ('week53',)) is not None or cal.parse(t, attr(e, 'max'), ('week53',)) is not None:
                                ranged.add(id(e))
                        except cal.KnownRaise:
                            pass
            # elements of a rooted document: reachable from the root element
            rooted = set(id(e) for e in ([D.root] + list(D.root.find_all(True))) if D.root is not None) if D.root is not None else set()
            # the root must really be :root (no stray top-level siblings) for the direction law
            rooted_ok = id(D.root) in R[':root'] if D.root is not None else False
            laws = [
                ('enabled/disabled disjoint', not (R[':enabled'] & R[':disabled'])),
                ('enabled u disabled = controls (hidden inputs are neither unless [disabled])',
                 (R[':enabled'] | R[':disabled']) - hidden == controls - hidden and (R[':enabled'] | R[':disabled']) <= controls),
                ('required/optional partition input, select, textarea', not (R[':required'] & R[':optional']) and (R[':required'] | R[':optional']) == ita),
                ('read-write/read-only partition all elements', not (R[':read-write'] & R[':read-only']) and (R[':read-write'] | R[':read-only']) == html_els),
                ('in-range/out-of-range disjoint', not (R[':in-range'] & R[':out-of-range'])),
                ('in-range u out-of-range = range-typed inputs with a valid bound', (R[':in-range'] | R[':out-of-range']) == ranged),
                (':link = :any-link', R[':link'] == R[':any-link']),
                ('every :checked is :default', R[':checked'] <= R[':default']),
                (':dir(ltr)/:dir(rtl) disjoint', not (R[':dir(ltr)'] & R[':dir(rtl)'])),
            ]
            if rooted_ok:
                inner = set()
                for e in elements:          # elements of the outer document only (iframe content has its own root)
                    p, cross = e, False
                    while p is not None and not isinstance(p, bs4.BeautifulSoup):
                        if p is not e and is_iframe(p):
                            cross = True
                        p = p.parent
                    if not cross:
                        inner.add(id(e))
                want = rooted & html_els & inner
                laws.append(('each HTML element of a rooted document is exactly one of :dir(ltr), :dir(rtl)',
                             want <= (R[':dir(ltr)'] | R[':dir(rtl)'])))
            for name, ok in laws:
                ck.count(('law', name, len(elements) > 8))
                if not ok:
                    ck.violation(f'law "{name}" fails', {'law': name, 'markup': matchcheck.markup_of(sc), 'tree': sc.label,
                                 'selected_counts': {k: len(v) for k, v in R.items()}})
            # definitions
            for e in elements:
                if id(e) not in html_els:
                    continue
                sd = spec_default(e, R[':checked'])
                if sd is not None:
                    ck.count(('default', sd))
                    if sd != (id(e) in R[':default']):
                        ck.violation(f':default {"does not select" if sd else "selects"} {str(e)[:120]!r} against its definition',
                                     {'pattern': ':default', 'element': str(e)[:300], 'expected': sd, 'markup': matchcheck.markup_of(sc)})
                si = spec_indeterminate(e)
                ck.count(('indeterminate', si))
                if si != (id(e) in R[':indeterminate']):
                    ck.violation(f':indeterminate {"does not select" if si else "selects"} {str(e)[:120]!r} against its definition',
                                 {'pattern': ':indeterminate', 'element': str(e)[:300], 'expected': si, 'markup': matchcheck.markup_of(sc)})
                # placeholder-shown: non-empty placeholder and no content
                nm = lower(e.name)
                if nm in ('input', 'textarea'):
                    ph = attr(e, 'placeholder')
                    t = lower(attr(e, 'type') or '') if attr(e, 'type') is not None else None
                    if nm == 'textarea':
                        txt = ''.join(str(x) for x in e.descendants if selspec.is_text(x))
                        sp = bool(ph) and txt in ('', '\n')
                    else:
                        okt = t is None or t in ('', 'text', 'search', 'url', 'tel', 'email', 'password', 'number')
                        val = attr(e, 'value')
                        sp = bool(ph) and okt and (val is None or val == '') 
                    ck.count(('placeholder', sp))
                    if sp != (id(e) in R[':placeholder-shown']):
                        ck.violation(f':placeholder-shown {"does not select" if sp else "selects"} {str(e)[:120]!r}',
                                     {'pattern': ':placeholder-shown', 'element': str(e)[:300], 'expected': sp, 'markup': matchcheck.markup_of(sc)})
            ops = [('select', (), 0)]
            for nm in names:
                sc.add(nm, ops)
            if len(ck.samples) < 3:
                ck.sample({'tree': sc.label, 'counts': {k: len(v) for k, v in R.items()}})
            scs.append(sc)
    matchcheck.run_corr(ck, scs)
    return ck.finish(
        level='proof',
        rule='HTML documents (html.parser, lxml, html5lib, bs4 API) made of nested forms, fieldsets/legends, radio groups with colliding '
             'names, controls of every type incl. unknown, checked/disabled/readonly/required/placeholder/dir/contenteditable '
             'combinations, bidi text, iframes; 10 partition/inclusion laws + the definitions of :default, :indeterminate and '
             ':placeholder-shown evaluated on the implementation for every element; all 17 pseudo-classes through the extracted model.',
        assumptions=[':default is not judged for forms that contain a nested form (invalid HTML; the code stops scanning there)',
                     'the range law uses the known week-53 behaviour (C18 finding) so that it does not re-report it'])


def replay(path):
    print(open(path).read())
    return 0
