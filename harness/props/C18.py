"""C18 - date, time and number values are validated and ordered as HTML prescribes."""
import itertools, json, warnings
from fractions import Fraction
import lib
from lib import Check, Driver, s_str, s_opt
from oracles import calendar_spec as spec

PID = 'C18'
CONE = ['Calendar.v', 'CalendarFacts.v', 'Inputs.v', 'Regex.v', 'RunFacts.v', 'DateShape.v', 'gen/PureGen.v', 'gen/RegexGen.v', 'AttrFacts.v', 'AttrPat.v', 'RegexLang.v', 'NumShape.v']
TYPES = ['date', 'month', 'week', 'time', 'datetime-local', 'number', 'range']
YEARS = [0, 1, 4, 99, 100, 400, 999, 1000, 1582, 1600, 1900, 1979, 1980, 1999, 2000, 2004, 2015, 2019, 2020, 2021,
         2024, 2026, 2100, 2400, 9999, 10000, 12345, 40000, 123456]


def fmt_year(rnd, y):
    s = str(y)
    r = rnd.random()
    if r < 0.8:
        return s.rjust(4, '0')
    if r < 0.9:
        return s                      # possibly fewer than 4 digits
    return '0' + s.rjust(4, '0')      # extra leading zero (still valid: four or more digits)


def two(rnd, pool):
    v = rnd.choice(pool)
    r = rnd.random()
    if r < 0.92:
        return f'{v:02d}'
    if r < 0.96:
        return str(v)
    return f'{v:03d}'


def gen_number(rnd):
    r = rnd.random()
    ip = rnd.choice(['0', '1', '5', '10', '99', '100', '007', '123456', '2', '3'])
    fp = rnd.choice(['0', '5', '25', '50', '001', '999'])
    if r < 0.3:
        s = ip
    elif r < 0.6:
        s = ip + '.' + fp
    elif r < 0.7:
        s = '.' + fp
    elif r < 0.8:
        s = ip + rnd.choice(['e', 'E']) + rnd.choice(['', '+', '-']) + rnd.choice(['0', '1', '2', '3', '10'])
    elif r < 0.85:
        s = ip + '.' + fp + rnd.choice(['e', 'E']) + rnd.choice(['', '+', '-']) + rnd.choice(['1', '2'])
    else:
        s = rnd.choice(['5.', '.', '-', '', 'e3', '1e', '1e+', '+5', '1.2.3', 'abc', '0x10', '1 ', ' 1', '1\n', 'Infinity',
                        'nan', '1_0', '٣', '1.٥', '--1', '-.5', '-0', '1e3.5'])
    if rnd.random() < 0.3 and s and s[0] not in '-+ ':
        s = '-' + s
    return s


def gen_value(rnd, itype, near=None):
    """A mostly-valid string of the given type; `near` biases towards another generated value."""
    if itype in ('number', 'range'):
        return gen_number(rnd)
    y = rnd.choice(YEARS) if rnd.random() < 0.8 else rnd.randint(1, 11000)
    if near and rnd.random() < 0.6:
        return mutate_near(rnd, itype, near)
    ys = fmt_year(rnd, y)
    mo = two(rnd, [0, 1, 2, 4, 6, 9, 11, 12, 13])
    d = two(rnd, [0, 1, 28, 29, 30, 31, 32])
    w = two(rnd, [0, 1, 2, 26, 52, 53, 54])
    h = two(rnd, [0, 1, 12, 23, 24])
    mi = two(rnd, [0, 1, 30, 59, 60])
    s = {'date': f'{ys}-{mo}-{d}', 'month': f'{ys}-{mo}', 'week': f'{ys}-W{w}', 'time': f'{h}:{mi}',
         'datetime-local': f'{ys}-{mo}-{d}T{h}:{mi}'}[itype]
    r = rnd.random()
    if r < 0.88:
        return s
    # malformed stream
    k = rnd.randrange(8)
    if k == 0:
        return s + '\n'
    if k == 1:
        return ' ' + s
    if k == 2:
        return s.lower()
    if k == 3:
        return s.replace('-', '/', 1)
    if k == 4:
        return s[:-1]
    if k == 5:
        return s + '0'
    if k == 6:
        i = rnd.randrange(len(s))
        return s[:i] + rnd.choice(['٣', 'x', ' ', '+', '\t']) + s[i + 1:]
    return s + ':00'


def mutate_near(rnd, itype, near):
    """Change the last numeric field of `near` by a small amount (keeps the string well-formed)."""
    import re
    m = list(re.finditer(r'[0-9]+', near))
    if not m:
        return near
    t = rnd.choice(m[-2:])
    v = int(t.group(0)) + rnd.choice([-1, 0, 1, 1, -1, 2])
    if v < 0:
        v = 0
    return near[:t.start()] + str(v).rjust(len(t.group(0)), '0') + near[t.end():]


def canon_real_pv(v):
    if v is None:
        return ['ok', 'none']
    if len(v) == 1 and isinstance(v[0], float):
        return ['ok', ['num', v[0]]]
    return ['ok', ['tuple'] + [int(x) for x in v]]


def canon_model_pv(r):
    if r[0] == 'raise':
        return ['raise', r[1]]
    if r[1] == 'none':
        return ['ok', 'none']
    v = r[1][1]
    if v[0] == 'tuple':
        return ['ok', ['tuple'] + [int(x) for x in v[1:]]]
    mant, scale = int(v[1]), int(v[2])
    if abs(scale) > 400:
        return ['ok', ['num', float('inf') if scale < 0 and mant else 0.0]]
    return ['ok', ['num', float(Fraction(mant) / Fraction(10) ** scale)]]


def run(tier, seed):
    ck = Check(PID, tier, seed)
    rnd = ck.rnd
    ck.proof = lib.proof_step('props/C18.v', CONE)
    ck.broken += ck.proof['broken']
    if not ck.proof['driver_ok']:
        ck.notes['driver'] = 'unavailable: model-side runs skipped, searching with the implementation-side oracles only'
    import soupsieve as sv
    from soupsieve.css_match import Inputs
    from bs4 import BeautifulSoup
    drv = Driver()
    N = 4000 if tier == 'quick' else 60000

    # ---- (a) validators: translated code vs the live functions (ties T4 and the strptime model)
    ys = sorted(set(YEARS + [rnd.randint(1, 12000) for _ in range(300 if tier == 'quick' else 0)] +
                    (list(range(1, 12001)) if tier == 'thorough' else list(range(990, 1010)) + list(range(9990, 10010)))))
    ys = [y for y in ys if y >= 1]
    wk_cases = [(y, w) for y in ys for w in (0, 1, 52, 53, 54)]
    outs = drv.run([f'(validate_week {y} {w})' for y, w in wk_cases])
    for (y, w), mo in zip(wk_cases, outs):
        try:
            real = ['ok', 'true' if Inputs.validate_week(y, w) else 'false']
        except Exception as ex:
            real = ['raise', type(ex).__name__]
        sp = 1 <= w <= spec.iso_weeks(y)
        ck.count(('vw', real[0], real[1], w, sp))
        if real != mo:
            ck.broken.append(f'correspondence validate_week({y},{w}): implementation {real} model {mo}')
        s = f'{y:04d}-W{w:02d}'
        if real[0] == 'raise':
            key = 'C18-week-year-range' if not (1000 <= y <= 9999) and real[1] == 'ValueError' else None
            ck.violation(f'Inputs.validate_week({y}, {w}) raises {real[1]}', {'call': 'validate_week', 'year': y, 'week': w,
                         'observed': real, 'expected': sp}, key=key)
        elif (real[1] == 'true') != sp:
            quirk = w == 53 and __import__('datetime').date(spec._ref_year(y), 12, 31).isocalendar()[1] == 1
            ck.violation(f'validate_week({y},{w}) = {real[1]} but year {y} has {spec.iso_weeks(y)} ISO weeks',
                         {'call': 'validate_week', 'year': y, 'week': w, 'observed': real, 'expected': sp,
                          'input_example': f'<input type="week" min="{s}" value="{y:04d}-W01">  :out-of-range'},
                         key='C18-week53-dec31-in-week1' if quirk else None)
    day_cases = [(y, m, d) for y in (ys if tier == 'thorough' else ys[::7] + [1900, 2000, 2100, 2024])
                 for m in range(0, 14) for d in (0, 1, 28, 29, 30, 31, 32)]
    outs = drv.run([f'(validate_day {y} {m} {d})' for y, m, d in day_cases])
    for (y, m, d), mo in zip(day_cases, outs):
        real = 'true' if Inputs.validate_day(y, m, d) else 'false'
        ck.count(('vd', real, m, d))
        if real != mo:
            ck.broken.append(f'correspondence validate_day({y},{m},{d}): implementation {real} model {mo}')
        if 1 <= m <= 12:
            sp = 1 <= d <= spec.days_in_month(y, m)
            if (real == 'true') != sp:
                ck.violation(f'validate_day({y},{m},{d}) = {real}, {y}-{m:02d} has {spec.days_in_month(y, m)} days',
                             {'call': 'validate_day', 'args': [y, m, d], 'observed': real, 'expected': sp})

    # ---- (b) parse_value: model (generated regexes + generated validators + glue) vs implementation vs spec
    pcases = []
    for _ in range(N):
        t = rnd.choice(TYPES)
        pcases.append((t, gen_value(rnd, t)))
    outs = drv.run([f'(parse_value {s_str(t)} {s_str(s)})' for t, s in pcases])
    for (t, s), mo in zip(pcases, outs):
        try:
            real = canon_real_pv(Inputs.parse_value(t, s))
        except Exception as ex:
            real = ['raise', type(ex).__name__]
        model = canon_model_pv(mo) if mo[0] in ('ok', 'raise') else mo
        ck.count(('pv', t, real[0], real[1] if real[1] == 'none' else 'val', len(s)))
        if real != model:
            ck.broken.append(f'correspondence parse_value({t!r},{s!r}): implementation {real} model {model}')
        try:
            sp = spec.parse(t, s)
        except Exception:
            sp = None
        real_valid = real[0] == 'ok' and real[1] != 'none'
        if real[0] == 'raise' or real_valid != (sp is not None):
            key = None
            try:
                q = spec.parse(t, s, ('week53',))
                if real[0] == 'ok' and real_valid == (q is not None):
                    key = 'C18-week53-dec31-in-week1'
                spec.parse(t, s, ('weekrange',))
            except spec.KnownRaise:
                if real == ['raise', 'ValueError']:
                    key = 'C18-week-year-range'
            ck.violation(f'parse_value({t!r}, {s!r}) -> {real}; HTML validity: {sp is not None}',
                         {'call': 'Inputs.parse_value', 'itype': t, 'value': s, 'observed': real,
                          'expected_valid': sp is not None}, key=key)
        elif real_valid:
            if real[1][0] == 'tuple' and tuple(real[1][1:]) != tuple(sp):
                ck.violation(f'parse_value({t!r}, {s!r}) fields {real[1][1:]} != {sp}',
                             {'call': 'Inputs.parse_value', 'itype': t, 'value': s, 'observed': real, 'expected': list(sp)})
            if real[1][0] == 'num' and real[1][1] != float(sp):
                ck.violation(f'parse_value({t!r}, {s!r}) = {real[1][1]} != {float(sp)}',
                             {'call': 'Inputs.parse_value', 'itype': t, 'value': s, 'observed': real, 'expected': float(sp)})
        if len(ck.samples) < 3:
            ck.sample({'parse_value': [t, s], 'impl': real, 'model': model})

    # ---- (c) :in-range / :out-of-range through the public API
    soup = BeautifulSoup('<html><body><input></body></html>', 'html.parser')
    el = soup.input
    rcases = []
    for _ in range(N):
        t = rnd.choice(TYPES)
        base = gen_value(rnd, t)
        mn = rnd.choice([None, base, gen_value(rnd, t, base)])
        mx = rnd.choice([None, gen_value(rnd, t, base), gen_value(rnd, t, mn or base)])
        v = rnd.choice([None, gen_value(rnd, t, base), gen_value(rnd, t, mx or base), gen_value(rnd, t, mn or base)])
        ts = t if rnd.random() < 0.85 else rnd.choice([t.upper(), t.title(), 'text', '', None])
        rcases.append((ts, mn, mx, v))
    lowered = [(ts.lower() if ts is not None else '') for ts, _, _, _ in rcases]
    req = []
    for (ts, mn, mx, v), lt in zip(rcases, lowered):
        for inr in ('true', 'false'):
            req.append(f'(match_range {s_str(lt)} {s_opt(mn)} {s_opt(mx)} {s_opt(v)} {inr})')
    outs = drv.run(req)
    with warnings.catch_warnings():
        warnings.simplefilter('ignore')
        for i, (ts, mn, mx, v) in enumerate(rcases):
            attrs = {}
            for k, val in (('type', ts), ('min', mn), ('max', mx), ('value', v)):
                if val is not None:
                    attrs[k] = val
            el.attrs = attrs
            lt = lowered[i]
            gate = lt in spec.RANGE_TYPES and (mn is not None or mx is not None)
            for j, (sel, inr) in enumerate(((':in-range', True), (':out-of-range', False))):
                try:
                    real = ['ok', 'true' if sv.match(sel, el) else 'false']
                except Exception as ex:
                    real = ['raise', type(ex).__name__]
                mo = outs[2 * i + j]
                model = mo if not gate and mo[0] == 'raise' else (mo if mo[0] == 'raise' else ['ok', 'true' if (gate and mo[1] == 'true') else 'false'])
                if not gate and mo[0] == 'raise':
                    # the range test runs before the type/min/max sub-selectors: a raise is observable
                    pass
                ck.count(('mr', lt if lt in spec.RANGE_TYPES else 'other', sel, real[1], mn is None, mx is None, v is None))
                if real != model:
                    ck.broken.append(f'correspondence {sel} on {attrs!r}: implementation {real} model {model}')
                # specification
                oor = spec.out_of_range(lt, mn, mx, v)
                exp = (oor is False) if inr else (oor is True)
                if real[0] == 'raise' or (real[1] == 'true') != exp:
                    key = None
                    # the implementation has both known deviations at once: a bound can be valid only through the week-53 one
                    # and the value then raise through the year-range one
                    for q, kname in ((('week53',), 'C18-week53-dec31-in-week1'), (('weekrange',), 'C18-week-year-range'),
                                     (('week53', 'weekrange'), 'C18-week-year-range' if real[0] == 'raise' else 'C18-week53-dec31-in-week1')):
                        try:
                            o2 = spec.out_of_range(lt, mn, mx, v, q)
                            e2 = ['ok', 'true' if ((o2 is False) if inr else (o2 is True)) else 'false']
                        except spec.KnownRaise:
                            e2 = ['raise', 'ValueError']
                        if e2 == real:
                            key = kname
                            break
                    ck.violation(f'{sel} on <input {attrs!r}> gives {real}, HTML says {exp}',
                                 {'selector': sel, 'attrs': attrs, 'observed': real, 'expected': exp,
                                  'replay': f"soupsieve.match({sel!r}, <input> with attrs {attrs!r})"}, key=key)
            if len(ck.samples) < 6:
                ck.sample({'input_attrs': attrs, 'model_in_range': outs[2 * i], 'model_out_of_range': outs[2 * i + 1]})
    ck.broken = ck.broken[:12]
    return ck.finish(
        level='proof',
        rule='(a) validate_week/validate_day: boundary years x week/day pools (thorough: every year 1..12000); '
             '(b) parse_value on mostly-valid strings from boundary pools (+12% malformed stream) per type; '
             '(c) :in-range/:out-of-range via soupsieve.match on <input> with generated type/min/max/value. '
             'A class = (function, type, outcome kind, boundary-field pattern); every case is evaluated three ways: '
             'implementation, extracted Coq model, independent spec.',
        assumptions=['datetime.strptime(...).isocalendar() modelled by Calendar.py_isoweek_dec31 (checked by (a))',
                     'float(str) modelled as the exact decimal; compared with Python floats after correct rounding',
                     'regex shapes RE_DATE..RE_NUM are translated (T1) and executed by Regex.ends; their equivalence '
                     'to the HTML microsyntax is tested by (b), not proved'],
    )


def replay(path):
    data = json.load(open(path))
    print(json.dumps(data, indent=1))
    return 0
