"""C19 - text pseudo-classes see exactly the character data CSS/HTML count as content."""
import lib, campaign, matchcheck
from lib import Check
from props import C01

PID = 'C19'


def run(tier, seed):
    ck = Check(PID, tier, seed)
    ck.proof = lib.proof_step('props/C19.v', matchcheck.MATCH_CONE + ['TextFacts.v'])
    ck.broken += ck.proof['broken']
    if not ck.proof['driver_ok']:
        ck.notes['driver'] = 'unavailable: model-side runs skipped, searching with the implementation-side oracles only'
    n = 200 if tier == 'quick' else 4000
    scs = campaign.build(ck.rnd, 'contains', n, 8, depth=1, all_match=True)
    scs += campaign.build(ck.rnd, 'langdir', n // 2, 6, feats=('core', 'contains'), depth=1, all_match=True)   # iframes
    scs += campaign.build(ck.rnd, 'ns', n // 4, 4, feats=('core', 'contains'), depth=1, all_match=True)        # XML: CDATA, PI
    recs = matchcheck.run_corr(ck, scs)
    C01.oracle(ck, scs, recs)
    return ck.finish(
        level='proof',
        rule='trees with every node kind (text, comment, CDATA, PI, declaration, doctype) interleaved at any depth, text split across '
             'adjacent nodes, nested iframes (HTML) and XML documents; :-soup-contains / :-soup-contains-own with 1-2 search strings '
             'drawn from the tree\'s own text (incl. strings spanning node boundaries, quotes, whitespace), and :empty. '
             'Implementation vs extracted Coq matcher vs reference semantics.',
        assumptions=['the deprecated alias :contains is checked with the parser properties (C09), not here'])


def replay(path):
    print(open(path).read())
    return 0
