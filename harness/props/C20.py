"""C20 - diagnostics point at the right place and always terminate."""
import io, contextlib, itertools, signal, warnings
import lib, e2, gen_strings, gen_selectors, campaign
from lib import Check, s_str

PID = 'C20'
CONE = ['Regex.v', 'RegexFacts.v', 'RegexCost.v', 'RunFacts.v', 'DetCost.v', 'Diag.v', 'DiagFacts.v', 'LineFacts.v', 'PrettyFacts.v', 'Parser.v', 'gen/RegexGen.v']


def spec_line_col(s, i):
    line, start, k = 1, 0, 0
    while k < i:
        if s[k] == '\r' and k + 1 < len(s) and s[k + 1] == '\n':
            if k + 2 <= i:
                line, start, k = line + 1, k + 2, k + 2
            else:
                k += 1              # offset between \r and \n: still on this line
        elif s[k] in '\r\n':
            line, start, k = line + 1, k + 1, k + 1
        else:
            k += 1
    return line, i - start + 1


def split_lines(s):
    out, cur, k = [], '', 0
    while k < len(s):
        if s[k] == '\r' and k + 1 < len(s) and s[k + 1] == '\n':
            out.append(cur); cur = ''; k += 2
        elif s[k] in '\r\n':
            out.append(cur); cur = ''; k += 1
        else:
            cur += s[k]; k += 1
    out.append(cur)
    return out


def context_ok(s, i, ctx, line, col):
    """context = the pattern's lines (4-column prefix when there are several) with a caret under column col after line `line`"""
    lines = split_lines(s)
    cl = ctx.split('\n')
    if len(lines) == 1:
        return cl == [s, ' ' * (col - 1) + '^']
    if len(cl) != len(lines) + 1:
        return False
    body = cl[:line] + cl[line + 1:]
    caret = cl[line]
    if [b[4:] for b in body] != lines or any(b[:4] != ('--> ' if k == line - 1 else '    ') for k, b in enumerate(body)):
        return False
    in_crlf = i > 0 and i < len(s) and s[i - 1] == '\r' and s[i] == '\n'
    return caret.strip() == '^' and (in_crlf or caret == ' ' * (col + 3) + '^')


class Timeout(Exception):
    pass


def run(tier, seed):
    ck = Check(PID, tier, seed)
    rnd = ck.rnd
    ck.proof = lib.proof_step('props/C20.v', CONE)
    ck.broken += ck.proof['broken']
    if not ck.proof['driver_ok']:
        ck.notes['driver'] = 'unavailable: model-side runs skipped, searching with the implementation-side oracles only'
    import soupsieve as sv
    from soupsieve import util
    from soupsieve.pretty import pretty
    drv = lib.Driver()
    # ---- (1) get_pattern_context: implementation vs model vs specification
    L = 6 if tier == 'quick' else 9
    strs = [''.join(p) for n in range(0, L + 1) for p in itertools.product('a\n\r', repeat=n)]
    if tier == 'quick':
        strs = rnd.sample(strs, 500)
    strs += [''.join(rnd.choice(['a', 'b', ' ', '\n', '\r', '\r\n', '\f', '\x0b', ' ', 'é', ':', '(']) for _ in range(rnd.randint(0, 30)))
             for _ in range(300 if tier == 'quick' else 5000)]
    # code points of every display width / category: the column is a count of characters, never of terminal cells or bytes
    WIDE = ['日', '本', '語', 'Ａ', '！', '한', '\U0001F600', '\u0301', '\u200b', '\u00ad', '\t', '\U00020000', '\u3000', 'ｱ', '\u2028', '\x85', '\x1c']
    strs += [''.join(rnd.choice(WIDE + ['a', '.', '[', '\n', '\r\n']) for _ in range(rnd.randint(1, 14))) for _ in range(120 if tier == 'quick' else 2000)]
    cases = [(s, i) for s in strs for i in range(len(s) + 1)]
    outs = drv.run([f'(context {s_str(s)} {i})' for s, i in cases])
    nb = 0
    for (s, i), mo in zip(cases, outs):
        ctx, line, col = util.get_pattern_context(s, i)
        model = ('\ufffe', -1, -1) if lib.is_err(mo) else (lib.sx_to_str(mo[0]), int(mo[1]), int(mo[2]))
        ck.count(('ctx', min(len(s), 8), i == len(s), '\r\n' in s, '\r' in s, '\n' in s))
        if (ctx, line, col) != model:
            nb += 1
            if nb <= 3:
                ck.broken.append(f'correspondence get_pattern_context({s!r}, {i}): implementation {(ctx, line, col)!r} model {model!r}')
        sl, sc = spec_line_col(s, i)
        if (line, col) != (sl, sc):
            ck.violation(f'get_pattern_context({s!r}, {i}) reports line {line} col {col}; the offset is on line {sl} col {sc}',
                         {'pattern': s, 'offset': i, 'observed': [line, col], 'expected': [sl, sc]})
        elif not context_ok(s, i, ctx, line, col):
            ck.violation(f'get_pattern_context({s!r}, {i}): the context does not reproduce the lines with a caret under column {col}',
                         {'pattern': s, 'offset': i, 'context': ctx, 'line': line, 'col': col})
    ck.sample({'pattern': cases[5][0], 'offset': cases[5][1], 'model': str(outs[5])[:80]})
    # ---- (2) every SelectorSyntaxError of compile points inside its pattern
    sg = gen_selectors.SGen(rnd, feats=('core', 'state', 'lang', 'dir', 'contains', 'misc', 'ns'), prefixes=['a'])
    pats = []
    for _ in range(1500 if tier == 'quick' else 40000):
        s = gen_strings.mutate(rnd, sg.selector(1))
        if rnd.random() < 0.5:
            j = rnd.randrange(len(s) + 1)
            s = s[:j] + rnd.choice(['\n', '\r\n', '\r', ' \n ', '\n\n']) + s[j:]
        pats.append((s, None))
    # errors inside a custom selector's definition are reported against the definition's text
    for _ in range(300 if tier == 'quick' else 6000):
        d = gen_strings.mutate(rnd, sg.selector(1))
        if rnd.random() < 0.7:
            j = rnd.randrange(len(d) + 1)
            d = d[:j] + rnd.choice(['\n', '\r\n', '\n\n', ',\n', '\n  ']) + d[j:]
        outer = rnd.choice([':--c', 'main :--c', 'a > :--c, b', ':is(:--c)', 'p:--c\n', ':--d'])
        pats.append((outer, {':--c': d, ':--d': 'x :--c'}))
    nb2 = 0
    for r in e2.run(pats):
        why = e2.agree(r)
        if why:
            nb2 += 1
            if nb2 <= 3:
                ck.broken.append(f'correspondence compile({r["pattern"]!r}): {why}')
        real = r['real']
        if real[0] == 'sse' and real[1] is not None:
            texts = [r['pattern']] + (list(r['custom'].values()) if r.get('custom') else [])
            ok = False
            for p2 in texts:
                p2 = p2.replace('\x00', '�')
                ok = ok or any(spec_line_col(p2, i) == (real[1], real[2]) and context_ok(p2, i, real[3], real[1], real[2]) for i in range(len(p2) + 1))
            ck.count(('sse', real[1] > 1, real[2] > 1))
            if not ok:
                ck.violation(f'compile({r["pattern"]!r}): SelectorSyntaxError line {real[1]} col {real[2]} is not a position of the pattern '
                             '(nor of a custom definition) or the context has no caret under it', {'pattern': r['pattern'], 'custom': r.get('custom'), 'line': real[1], 'col': real[2], 'context': real[3]})
    # ---- (2b) DEBUG changes no outcome of a malformed pattern either: same exception, same message, line, column, context
    import io, contextlib

    def outcome(pt, cu, fl):
        sv.purge()
        try:
            with warnings.catch_warnings():
                warnings.simplefilter('ignore')
                with contextlib.redirect_stdout(io.StringIO()):
                    c_ = sv.compile(pt, None, fl, custom=cu)
            return ('ok', repr(c_.selectors))
        except Exception as ex:
            return (type(ex).__name__, str(ex), getattr(ex, 'line', None), getattr(ex, 'col', None), getattr(ex, 'context', None))
    twice = []
    for _ in range(250 if tier == 'quick' else 5000):
        d = gen_strings.mutate(rnd, gen_strings.mutate(rnd, sg.selector(1)))
        if rnd.random() < 0.5:
            d += rnd.choice([' $', ' %', '\\', ' ^x', ' ;', '{', ' !'])           # a character no token accepts, after whatever came first
        twice.append((d, None))
    for pt, cu in rnd.sample(pats, min(len(pats), 250 if tier == 'quick' else 5000)) + twice:
        o0, o1 = outcome(pt, cu, 0), outcome(pt, cu, sv.DEBUG)
        ck.count(('debug-outcome', o0[0]))
        if o0 != o1:
            ck.violation(f'compile({pt!r}) gives {o0[:2]} without and {o1[:2]} with flags=DEBUG',
                         {'pattern': pt, 'custom': cu, 'without_debug': list(o0), 'with_debug': list(o1)})
    # ---- (3) DEBUG changes no result
    for sc in campaign.build(rnd, 'ns', 30 if tier == 'quick' else 600, 0) + campaign.build(rnd, 'core', 20 if tier == 'quick' else 400, 0):
        pools = gen_selectors.pools_from_soup(sc.top)
        nsmap = rnd.choice(campaign.NSMAPS)
        g = gen_selectors.SGen(rnd, feats=('core', 'state', 'lang', 'contains', 'ns'), prefixes=[k for k in (nsmap or {}) if k] or ['a'], **pools)
        for _ in range(5):
            s = g.selector(1)
            try:
                with warnings.catch_warnings():
                    warnings.simplefilter('ignore')
                    sv.purge()
                    a = sv.compile(s, nsmap)
                    ra = a.select(sc.top)
                    with contextlib.redirect_stdout(io.StringIO()):
                        b = sv.compile(s, nsmap, sv.DEBUG)
                        rb = b.select(sc.top)
            except Exception:
                continue
            ck.count(('debug', len(ra) > 0))
            if a.selectors != b.selectors or [id(x) for x in ra] != [id(x) for x in rb]:
                ck.violation(f'the DEBUG flag changes the result of {s!r}',
                             {'pattern': s, 'namespaces': nsmap, 'markup': str(sc.top)[:1500], 'without': len(ra), 'with_debug': len(rb),
                              'structures_equal': a.selectors == b.selectors})
    # ---- (4) pretty(): terminates and reproduces the repr up to white space
    def handler(signum, frame):
        raise Timeout()
    signal.signal(signal.SIGALRM, handler)
    reprs = []
    for _ in range(150 if tier == 'quick' else 4000):
        s = sg.selector(2) if rnd.random() < 0.8 else rnd.choice([':nth-child(-n+3)', '[a=b]', '[type="x" i]', ':nth-last-of-type(-2n - 5)',
                                                                  'a[b*="(c)"]:not(.d, #e)', '[a="\'"]', '[a=\'"\']', ':lang("en-US", de)'])
        try:
            with warnings.catch_warnings():
                warnings.simplefilter('ignore')
                c = sv.compile(s, custom={':--cust': 'p'})
        except Exception:
            continue
        reprs.append((s, str(c.selectors)))
    # long values: re.Pattern's repr cuts the pattern text at 200 characters (no closing quote), :-soup-contains and :lang keep theirs
    for k_ in range(6 if tier == 'quick' else 60):
        long_ = ''.join(rnd.choice(['data:image/png;base64,', 'iVBORw0KGgo', "it's", '"q"', ' ', '-', 'x.y', '(', ']', '\\', 'é']) for _ in range(rnd.randint(30, 60)))
        esc = long_.replace('\\', '\\\\').replace('"', '\\"')
        s = rnd.choice(['img[src^="%s"] + p.caption', '[a="%s" i]', 'p:-soup-contains("%s")', ':lang("%s")', '[a~="%s"], [b|="%s"]'.replace('%s', '%s', 1)])
        s = s.replace('%s', esc)
        try:
            with warnings.catch_warnings():
                warnings.simplefilter('ignore')
                c = sv.compile(s)
        except Exception:
            continue
        reprs.append((s, str(c.selectors)))
    reprs.sort(key=lambda x: len(x[1]))
    nmodel = 40 if tier == 'quick' else 1500
    outs = drv.run([f'(pretty {s_str(r)})' for _, r in reprs[:nmodel]]) + [None] * max(0, len(reprs) - nmodel)
    nb3 = 0
    for (s, r), mo in zip(reprs, outs):
        signal.alarm(10)
        try:
            out = pretty(r)
            signal.alarm(0)
        except Timeout:
            ck.violation(f'pretty() did not terminate within 10 s on the compiled form of {s!r}', {'pattern': s, 'repr': r[:500]})
            continue
        finally:
            signal.alarm(0)
        ck.count(('pretty', len(r) // 500))
        strip = lambda x: ''.join(x.split())
        if strip(out) != strip(r):
            ck.violation(f'pretty() of the compiled form of {s!r} does not reproduce its repr up to white space', {'pattern': s, 'repr': r[:300], 'pretty': out[:300]})
        model = None if mo in ('none', None) else lib.sx_to_str(mo[1])
        if mo is not None and model != out:
            nb3 += 1
            if nb3 <= 2:
                ck.broken.append(f'correspondence pretty() on the compiled form of {s!r}: outputs differ')
    return ck.finish(
        level='proof',
        rule='(1) get_pattern_context on every string over {a, LF, CR} up to length 6 (thorough 9; sampled in quick) and random '
             'strings with CRLF/FF/VT/U+2028, at every offset 0..len: implementation vs Coq model vs the line/column specification, '
             'context lines and caret position; (2) mutated selectors with line breaks spliced in: every SelectorSyntaxError must '
             'point at a position of the pattern with a matching context (and agree with the model parser); (3) DEBUG vs no flag: '
             'equal structure and selection, with prefix maps incl. a default namespace; (4) pretty() on reprs of compiled selectors '
             '(negative An+B, regex flags, nested lists) under a 10 s alarm: terminates, equals the model output, reproduces the repr.',
        assumptions=['caret placement strictly inside a CRLF pair is not judged'])


def replay(path):
    print(open(path).read())
    return 0
