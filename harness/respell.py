"""Respelling of selector ASTs (gen_selectors.AGen): every CSS-insignificant choice is drawn from a PRNG.
p = 0 gives the canonical spelling."""
import zlib
import soupsieve as sv

HEX = '0123456789abcdefABCDEF'
WSCHARS = [' ', '\t', '\n', '\r\n', '\f', '\r', '/**/', '/* c */', '/***/', '  ', ' /* > */ ', '/*\n*/']


class Sp:
    def __init__(self, rnd, p=0.35):
        self.r, self.p = rnd, p

    def flip(self, q=None):
        return self.r.random() < (self.p if q is None else q)

    def ws(self, required=False):
        """zero or more whitespace/comments (at least one white space character outside comments if required)"""
        if self.p == 0:
            return ' ' if required else ''
        if not self.flip() and not required:
            return ''
        parts = [self.r.choice(WSCHARS) for _ in range(self.r.choice([1, 1, 2, 3]))]
        if required and not any(not x.startswith('/*') for x in parts):
            parts.insert(self.r.randrange(len(parts) + 1), self.r.choice([' ', '\n', '\t']))
        return ''.join(parts)

    def esc_char(self, c, nxt, in_string=False, quote=None):
        """c written literally or as an escape; nxt = following source character (to protect hex escapes)"""
        must = False
        if in_string:
            must = c in ('\\', quote, '\n', '\r', '\f')
        if not must and not self.flip(0.2 if self.p else 0):
            return None
        k = self.r.random()
        cp = ord(c)
        if k < 0.4 and c not in HEX and c not in '\n\r\f' and cp != 0:
            return '\\' + c
        digits = '%x' % cp if k < 0.8 else '%06x' % cp
        if self.flip(0.3):
            digits = digits.upper()
        # the single white space that ends a hex escape may be any CSS white space unit: blank, tab, LF, FF, CR or CR LF
        term = ' ' if (in_string or not self.flip(0.35)) else self.r.choice(['\t', '\n', '\f', '\r\n', ' '])     # not a lone CR: a following LF would merge with it into one unit
        if len(digits) < 6:
            return '\\' + digits + term         # a terminator is always safe (and needed before a hex digit / blank)
        # CSS: one white space after a hex escape belongs to the escape, so terminate it where white space may follow
        return '\\' + digits + (term if nxt is None or nxt in ' \t\n\r\f' or self.flip(0.3) else '')

    def ident(self, s):
        if self.p == 0 or s == '-' or s == '':
            return sv.escape(s)
        chars = list(s)
        out = ''
        for k, c in enumerate(chars):
            cp = ord(c)
            first = k == 0 or (k == 1 and chars[0] == '-')
            nxt = chars[k + 1] if k + 1 < len(chars) else None
            if cp == 0:
                piece, literal = '\ufffd', False
            elif cp <= 0x1f or cp == 0x7f or (first and c in '0123456789'):
                piece, literal = '\\%x ' % cp, False
            elif c in '-_' or cp >= 0x80 or c.isalnum() and c.isascii():
                piece, literal = c, True
            else:
                piece, literal = '\\' + c, False
            if literal and not (c == '-' and k < 2):
                e = self.esc_char(c, nxt)
                if e is not None:
                    piece = e
            out += piece
        return out

    def string(self, v, allow_bare=True):
        bare_ok = allow_bare and v and all(c.isalnum() or c in '-_' for c in v) and v.isascii() and not v[0].isdigit() and v != '-' and \
            not (v[0] == '-' and len(v) > 1 and (v[1].isdigit() or v[1] == '-')) and not v.startswith('--')
        k = self.r.random() if self.p else 0.5
        if bare_ok and k < 0.3 and self.p:
            return self.ident(v)
        quote = '"' if (k < 0.65 or not self.p) else "'"
        out = quote
        chars = list(v)
        for i, c in enumerate(chars):
            nxt = chars[i + 1] if i + 1 < len(chars) else quote
            e = self.esc_char(c, nxt, True, quote)
            if e is None and ord(c) < 0x20 and c not in '\t':
                e = '\\%x ' % ord(c)
            out += e if e is not None else c
            out += self.linecont(v, i)
        return out + quote

    def linecont(self, v, i):
        """a CSS line continuation (backslash + newline: contributes nothing to a quoted string) after character i of v,
        also right before the closing quote; decided by a hash of (v, i) so that the main stream of choices is unchanged"""
        if not self.p:
            return ''
        h = zlib.crc32(('%s|%d' % (v.encode('utf-8', 'surrogatepass').hex(), i)).encode())
        if h % 4:
            return ''
        return '\\' + ('\n', '\r\n', '\r', '\f')[(h >> 8) % 4]

    def pname(self, s):
        """a pseudo-class name: case variation and, as for any identifier, escapes"""
        out = ''
        chars = list(self.case(s))
        for k, c in enumerate(chars):
            nxt = chars[k + 1] if k + 1 < len(chars) else None
            e = self.esc_char(c, nxt) if (self.p and c != '-' or (c == '-' and k > 1 and self.flip(0.1) and self.p)) else None
            out += e if e is not None else c
        return out

    def case(self, s):
        if not self.flip():
            return s
        return ''.join(c.upper() if self.r.random() < 0.5 else c.lower() for c in s)


def show_compound(cp, sp):
    s = ''
    t = cp.get('type')
    if t is not None:
        pf, name = t
        s += ('' if pf is None else (pf if pf in ('*', '') else sp.ident(pf)) + '|') + (name if name == '*' else sp.ident(name))
    for i in cp.get('ids', []):
        s += '#' + sp.ident(i)
    for c in cp.get('classes', []):
        s += '.' + sp.ident(c)
    for (pf, name, op, value, flag) in cp.get('attrs', []):
        s += '[' + sp.ws() + ('' if pf is None else (pf if pf in ('*', '') else sp.ident(pf)) + '|') + sp.ident(name)
        if op is not None:
            s += sp.ws() + op + sp.ws() + sp.string(value)
            if flag is not None:
                s += sp.ws(True) + sp.case(flag)
        s += sp.ws() + ']'
    for ps in cp.get('pseudos', []):
        k = ps[0]
        if k == 'nth':
            _, kind, a, b, of = ps
            n = sp.case('n')
            if (a, b) == (2, 0) and sp.flip():
                arg = sp.case('even')
            elif (a, b) == (2, 1) and sp.flip():
                arg = sp.case('odd')
            else:
                an = (n if a == 1 and sp.flip(0.5) else '-' + n if a == -1 and sp.flip(0.5) else ('+' if a >= 0 and sp.flip() else '') + str(a) + n)
                if b == 0 and sp.flip(0.5):
                    arg = an
                else:
                    arg = an + sp.ws() + ('+' if b >= 0 else '-') + sp.ws() + str(abs(b))
            s += ':' + sp.pname(kind) + '(' + sp.ws() + arg
            if of is not None:
                s += sp.ws(True) + sp.case('of') + sp.ws(True) + show_list(of, sp)
            s += sp.ws() + ')'
        elif k in ('not', 'is'):
            name = ps[2] if len(ps) > 2 else k
            s += ':' + sp.pname(name) + '(' + sp.ws() + show_list(ps[1], sp) + sp.ws() + ')'
        elif k == 'has':
            parts = []
            for comb, cx in ps[1]:
                parts.append(('' if comb == ' ' else comb + sp.ws()) + show_complex(cx, sp))
            s += ':' + sp.pname('has') + '(' + sp.ws() + (sp.ws() + ',' + sp.ws()).join(parts) + sp.ws() + ')'
        elif k == 'contains':
            s += ':' + sp.pname('-soup-contains-own' if ps[1] else '-soup-contains') + '(' + sp.ws() + \
                (sp.ws() + ',' + sp.ws()).join(sp.string(t, allow_bare=True) for t in ps[2]) + sp.ws() + ')'
        elif k == 'lang':
            s += ':' + sp.pname('lang') + '(' + sp.ws() + (sp.ws() + ',' + sp.ws()).join(sp.string(t, allow_bare=False) for t in ps[1]) + sp.ws() + ')'
        elif k == 'dir':
            s += ':' + sp.pname('dir') + '(' + sp.ws() + sp.case(ps[1]) + sp.ws() + ')'
        else:
            s += ':' + sp.pname(k)
    return s


def show_complex(cx, sp):
    s = show_compound(cx[0], sp)
    for comb, cp in cx[1:]:
        if comb == ' ':
            s += sp.ws(True)
        else:
            s += sp.ws() + comb + sp.ws()
        s += show_compound(cp, sp)
    return s


def show_list(sl, sp):
    return (sp.ws() + ',' + sp.ws()).join(show_complex(cx, sp) for cx in sl)


def spell(sl, sp):
    return sp.ws() + show_list(sl, sp) + sp.ws()
