"""E5 - deterministic two-thread schedules on the real code: thread A is suspended before its k-th source line
inside the soupsieve package, thread B then runs its whole operation, then A resumes.  No timing, no retries."""
import sys, threading, os


BLOCK_WAIT = 8
LAST = {}


def run_pair(opA, opB, k, pkg_dir):
    """-> (resA, resB, reached): reached is False when opA has fewer than k soupsieve line events."""
    gate_a = threading.Event()      # set by A when it reaches its k-th line
    gate_b = threading.Event()      # set by B when it is done
    state = {'n': 0, 'reached': False, 'blocked': False}
    res = {}

    def tracer(frame, event, arg):
        if not frame.f_code.co_filename.startswith(pkg_dir):
            return None
        return local

    def local(frame, event, arg):
        if event == 'line':
            state['n'] += 1
            if state['n'] == k and not state['reached']:
                state['reached'] = True
                gate_a.set()
                if not gate_b.wait(BLOCK_WAIT):
                    state['blocked'] = True       # B cannot finish while A is suspended here (it waits for A): let A go on
        return local

    def a():
        sys.settrace(tracer)
        try:
            res['a'] = ('ok', opA())
        except BaseException as ex:
            res['a'] = ('exc', type(ex).__name__, str(ex)[:120])
        finally:
            sys.settrace(None)
            gate_a.set()

    def b():
        gate_a.wait(60)
        try:
            res['b'] = ('ok', opB())
        except BaseException as ex:
            res['b'] = ('exc', type(ex).__name__, str(ex)[:120])
        finally:
            gate_b.set()
    ta, tb = threading.Thread(target=a), threading.Thread(target=b)
    ta.start()
    tb.start()
    ta.join(120)
    tb.join(120)
    LAST['blocked'] = state['blocked']
    return res.get('a'), res.get('b'), state['reached'], state['n']
