"""Run every seeded change against the check of its own property (and optionally others); write seeded/RESULTS.json."""
import json, os, subprocess, sys, time
V = os.path.dirname(os.path.dirname(os.path.abspath(__file__)))
seeds = sorted(d for d in os.listdir(os.path.join(V, 'seeded')) if os.path.isdir(os.path.join(V, 'seeded', d)))
only = sys.argv[1:]
res = {}
out_path = os.path.join(V, 'seeded', 'RESULTS.json')
if os.path.exists(out_path):
    res = json.load(open(out_path))
for sd in seeds:
    if only and sd not in only and sd.split('-')[0] not in only:
        continue
    pid = json.load(open(os.path.join(V, 'seeded', sd, 'meta.json')))['property']
    patch = os.path.join(V, 'seeded', sd, 'patch.diff')
    assert subprocess.run(['git', '-C', '/repo', 'status', '--porcelain', '--untracked-files=no'], capture_output=True, text=True).stdout.strip() == ''
    r = subprocess.run(['git', '-C', '/repo', 'apply', patch], capture_output=True, text=True)
    if r.returncode != 0:
        res[sd] = {'property': pid, 'applies': False, 'stderr': r.stderr[-300:]}
        continue
    t0 = time.time()
    try:
        r = subprocess.run([os.path.join(V, 'check'), pid, '--tier', 'quick'], capture_output=True, text=True, timeout=3000)
        viol = [l for l in r.stdout.splitlines() if l.startswith('VIOLATION')]
        res[sd] = {'property': pid, 'applies': True, 'exit': r.returncode, 'violations': len(viol),
                   'concrete_replay': any('no-failing-input-found' not in v for v in viol),
                   'first': viol[0] if viol else None, 'wall_s': round(time.time() - t0, 1)}
        if viol:
            try:
                p = viol[0].split('replay=')[1].split()[0]
                d = json.load(open(p))
                res[sd]['what'] = (d.get('what') or str(d.get('no_longer_checks')))[:300]
            except Exception:
                pass
    finally:
        subprocess.run(['git', '-C', '/repo', 'reset', '-q', '--hard', 'HEAD'], check=True)
    print(sd, res[sd].get('exit'), res[sd].get('violations'), res[sd].get('concrete_replay'), res[sd].get('wall_s'), flush=True)
    json.dump(res, open(out_path, 'w'), indent=1)
# leave the build consistent with the clean tree again
subprocess.run(['/venv/bin/python', os.path.join(V, 'harness', 'build.py')], capture_output=True)
