"""Parallel seed matrix: K workers, each with its own copy of /verif and its own worktree of /repo (outside both).
Results are merged into seeded/RESULTS.json.  usage: seedmatrix_par.py K [seed ids...]"""
import json, os, shutil, subprocess, sys, time, concurrent.futures as cf
V = os.path.dirname(os.path.dirname(os.path.abspath(__file__)))
K = int(sys.argv[1])
only = sys.argv[2:]
seeds = sorted(d for d in os.listdir(os.path.join(V, 'seeded')) if os.path.isdir(os.path.join(V, 'seeded', d)))
seeds = [s for s in seeds if not only or s in only or s.split('-')[0] in only]
base = '/tmp/parmatrix'
shutil.rmtree(base, ignore_errors=True)
os.makedirs(base)
subprocess.run(['git', '-C', '/repo', 'worktree', 'prune'])


def setup(k):
    v, r = f'{base}/v{k}', f'{base}/r{k}'
    subprocess.run(['rsync', '-a', '--exclude', '.git', '--exclude', 'evidence/replays', V + '/', v + '/'], check=True)
    subprocess.run(['git', '-C', '/repo', 'worktree', 'add', '-q', '--detach', r, 'HEAD'], check=True)
    return v, r


def work(k, mine):
    v, r = setup(k)
    env = dict(os.environ, VERIF_REPO=r)
    out = {}
    for sd in mine:
        pid = json.load(open(os.path.join(V, 'seeded', sd, 'meta.json')))['property']
        patch = os.path.join(V, 'seeded', sd, 'patch.diff')
        a = subprocess.run(['git', '-C', r, 'apply', patch], capture_output=True, text=True)
        if a.returncode != 0:
            out[sd] = {'property': pid, 'applies': False, 'stderr': a.stderr[-300:]}
            continue
        t0 = time.time()
        try:
            p = subprocess.run([os.path.join(v, 'check'), pid, '--tier', 'quick'], capture_output=True, text=True, timeout=3000, env=env)
            viol = [l for l in p.stdout.splitlines() if l.startswith('VIOLATION')]
            out[sd] = {'property': pid, 'applies': True, 'exit': p.returncode, 'violations': len(viol),
                       'concrete_replay': any('no-failing-input-found' not in x for x in viol),
                       'first': viol[0].replace(v, V) if viol else None, 'wall_s': round(time.time() - t0, 1)}
            if viol:
                try:
                    d = json.load(open(viol[0].split('replay=')[1].split()[0]))
                    out[sd]['what'] = (d.get('what') or str(d.get('no_longer_checks')))[:300]
                except Exception:
                    pass
        finally:
            subprocess.run(['git', '-C', r, 'checkout', '--', '.'], check=True)
            subprocess.run(['git', '-C', r, 'clean', '-fdq'], check=True)
        print(sd, out[sd].get('exit'), out[sd].get('violations'), out[sd].get('concrete_replay'), out[sd].get('wall_s'), flush=True)
    return out


res_path = os.environ.get('MATRIX_OUT', os.path.join(V, 'seeded', 'RESULTS.json'))
res = json.load(open(res_path)) if os.path.exists(res_path) else {}
with cf.ThreadPoolExecutor(K) as ex:
    futs = [ex.submit(work, k, seeds[k::K]) for k in range(K)]
    for f in futs:
        res.update(f.result())
json.dump(res, open(res_path, 'w'), indent=1, sort_keys=True)
for k in range(K):
    subprocess.run(['git', '-C', '/repo', 'worktree', 'remove', '--force', f'{base}/r{k}'])
shutil.rmtree(base, ignore_errors=True)
print('done', len(seeds))
