"""Render seeded/RESULTS.json as the markdown table of DESIGN.md section 0.4 (between the SEED_TABLE markers)."""
import json, os, re
V = os.path.dirname(os.path.dirname(os.path.abspath(__file__)))
res = json.load(open(os.path.join(V, 'seeded', 'RESULTS.json')))
rows = ['| change | what it does (needs) | caught by its property\'s quick check | replay |', '|---|---|---|---|']
for sd in sorted(res):
    r = res[sd]
    try:
        m = json.load(open(os.path.join(V, 'seeded', sd, 'meta.json')))
    except Exception:
        continue
    what = m['summary'].replace('|', '\\|').replace('\n', ' ')
    if len(what) > 150:
        what = what[:147] + '...'
    if not r.get('applies'):
        verdict, rep = 'patch no longer applies', ''
    elif r.get('violations'):
        verdict = 'yes (exit 1, %d VIOLATION lines, %.0f s)' % (r['violations'], r.get('wall_s', 0))
        rep = 'concrete input' if r.get('concrete_replay') else 'no-failing-input-found: ' + (r.get('what') or '')[:80].replace('|', '\\|')
    else:
        verdict, rep = '**missed**', ''
    rows.append(f'| {sd} | {what} | {verdict} | {rep} |')
table = '\n'.join(rows)
p = os.path.join(V, 'DESIGN.md')
s = open(p).read()
if 'SEED_TABLE_PLACEHOLDER' in s:
    s = s.replace('SEED_TABLE_PLACEHOLDER', '<!-- SEED_TABLE_BEGIN -->\n' + table + '\n<!-- SEED_TABLE_END -->')
else:
    s = re.sub(r'<!-- SEED_TABLE_BEGIN -->.*?<!-- SEED_TABLE_END -->', lambda _: '<!-- SEED_TABLE_BEGIN -->\n' + table + '\n<!-- SEED_TABLE_END -->', s, flags=re.S)
open(p, 'w').write(s)
print(len(rows) - 2, 'rows')
