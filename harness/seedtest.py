"""Apply a seeded change to /repo, run checks, undo.  usage: seedtest.py <seed-dir> <Cxx> [<Cyy> ...] [--tier t]"""
import subprocess, sys, os, json
args = [a for a in sys.argv[1:] if not a.startswith('--')]
tier = 'quick'
for a in sys.argv[1:]:
    if a.startswith('--tier='):
        tier = a.split('=')[1]
seed, pids = os.path.abspath(args[0]), args[1:]
patch = os.path.join(seed, 'patch.diff')
r = subprocess.run(['git', '-C', '/repo', 'status', '--porcelain', '--untracked-files=no'], capture_output=True, text=True)
assert r.stdout.strip() == '', '/repo not clean: ' + r.stdout
r = subprocess.run(['git', '-C', '/repo', 'apply', '--3way', patch], capture_output=True, text=True)
if r.returncode != 0:
    r = subprocess.run(['git', '-C', '/repo', 'apply', patch], capture_output=True, text=True)
    if r.returncode != 0:
        print('PATCH DOES NOT APPLY', r.stderr[-500:]); sys.exit(2)
try:
    for pid in pids:
        r = subprocess.run(['/verif/check', pid, '--tier', tier], capture_output=True, text=True, timeout=3600)
        lines = [l for l in r.stdout.splitlines() if l.startswith(('VIOLATION', 'KNOWN', '['))]
        print(f'== {os.path.basename(os.path.dirname(seed+"/"))}/{os.path.basename(seed.rstrip("/"))} {pid}: exit={r.returncode}')
        for l in lines[-6:]:
            print('   ', l[:300])
        if r.returncode not in (0, 1):
            print(r.stdout[-1500:], r.stderr[-1500:])
finally:
    subprocess.run(['git', '-C', '/repo', 'reset', '-q', '--hard', 'HEAD'], check=True)
