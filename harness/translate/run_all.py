"""Run every translator against the soupsieve on PYTHONPATH; write gen/*.v (only when changed)."""
import json, os, sys
sys.path.insert(0, os.path.dirname(os.path.abspath(__file__)))
sys.path.insert(0, os.path.dirname(os.path.dirname(os.path.abspath(__file__))))
from build import write_if_changed, REPO  # noqa: E402

gen = sys.argv[1]
status = {}
import t4_pure  # noqa: E402
text, st = t4_pure.generate(REPO)
status['PureGen'] = st
write_if_changed(os.path.join(gen, 'PureGen.v'), text + '\n')
try:
    import t1_regex  # noqa: E402
    text, st, _, _ = t1_regex.generate()
    status['RegexGen'] = {k: v for k, v in st.items() if v != 'ok'} or 'all ok (%d patterns)' % len(st)
except Exception as ex:  # import failure of the live package: fail closed
    text = '(* soupsieve could not be imported: %r *)\nDefinition RegexGen_untranslatable : unit := tt.\n' % (ex,)
    status['RegexGen'] = {'_import': repr(ex)}
write_if_changed(os.path.join(gen, 'RegexGen.v'), text)
try:
    import t2_const  # noqa: E402
    text, st = t2_const.generate()
    status['ConstGen'] = st
except Exception as ex:
    text = '(* soupsieve could not be imported: %r *)\nDefinition ConstGen_untranslatable : unit := tt.\n' % (ex,)
    status['ConstGen'] = {'_import': repr(ex)}
write_if_changed(os.path.join(gen, 'ConstGen.v'), text)
try:
    import t3_api  # noqa: E402
    text, st = t3_api.generate(REPO)
    status['ApiGen'] = {k: v for k, v in st.items() if v != 'ok'} or 'ok'
except Exception as ex:
    text = '(* t3 failed: %r *)\nDefinition ApiGen_untranslatable : unit := tt.\n' % (ex,)
    status['ApiGen'] = {'_error': repr(ex)}
write_if_changed(os.path.join(gen, 'ApiGen.v'), text)
try:
    import t5_imports  # noqa: E402
    text, st, _ = t5_imports.generate(REPO)
    status['ImportGen'] = st
except Exception as ex:
    text = '(* t5 failed: %r *)\nDefinition ImportGen_untranslatable : unit := tt.\n' % (ex,)
    status['ImportGen'] = {'_error': repr(ex)}
write_if_changed(os.path.join(gen, 'ImportGen.v'), text)
try:
    import t6_shared  # noqa: E402
    text, st = t6_shared.generate(REPO)
    status['ThreadGen'] = {'findings': st['findings']}
except Exception as ex:
    text = '(* t6 failed: %r *)\nDefinition ThreadGen_untranslatable : unit := tt.\n' % (ex,)
    status['ThreadGen'] = {'_error': repr(ex)}
write_if_changed(os.path.join(gen, 'ThreadGen.v'), text)
print(json.dumps(status))
