"""T1 - translate every compiled regular expression of soupsieve into the Coq `re` AST.

The source of truth is CPython's own parse of the pattern (`re._parser.parse`) with the
pattern object's flags.  Character sets (incl. IGNORECASE and categories) are expanded to
explicit code-point ranges by asking the `re` engine itself which code points a one-item
pattern matches.  Fail-closed: any opcode outside the fragment raises Untranslatable.
"""
from __future__ import annotations
import re
from re import _parser as P, _compiler as C, _constants as K


class Untranslatable(Exception):
    pass


_ALL = None
_members_cache = {}


def _all():
    global _ALL
    if _ALL is None:
        _ALL = ''.join(map(chr, range(0x110000)))
    return _ALL


def _members_positive(item, flags):
    """Code points matched by a single-character, non-negated item under flags."""
    key = (repr(item), int(flags))
    if key not in _members_cache:
        st = P.State()
        st.flags = flags
        st.str = ''
        sp = P.SubPattern(st, [item])
        pobj = C.compile(sp, flags)
        _members_cache[key] = sorted(set(map(ord, pobj.findall(_all()))))
    return _members_cache[key]


def _to_ranges(points):
    out = []
    for c in points:
        if out and out[-1][1] == c - 1:
            out[-1][1] = c
        else:
            out.append([c, c])
    return [(a, b) for a, b in out]


def _complement(ranges):
    out, lo = [], 0
    for a, b in ranges:
        if a > lo:
            out.append((lo, a - 1))
        lo = b + 1
    if lo <= 0x10FFFF:
        out.append((lo, 0x10FFFF))
    return out


def charset(item, flags):
    """-> list of (lo, hi) for LITERAL / NOT_LITERAL / IN / ANY."""
    op, av = item
    flags = int(flags) & ~int(re.X)
    if op is K.LITERAL:
        return _to_ranges(_members_positive(item, flags))
    if op is K.NOT_LITERAL:
        return _complement(_to_ranges(_members_positive((K.LITERAL, av), flags)))
    if op is K.ANY:
        return [(0, 0x10FFFF)] if flags & re.S else [(0, 9), (11, 0x10FFFF)]
    if op is K.IN:
        neg = any(x[0] is K.NEGATE for x in av)
        pos_items = [x for x in av if x[0] is not K.NEGATE]
        for x in pos_items:
            if x[0] not in (K.LITERAL, K.RANGE, K.CATEGORY):
                raise Untranslatable(f'set item {x[0]}')
        r = _to_ranges(_members_positive((K.IN, pos_items), flags))
        return _complement(r) if neg else r
    raise Untranslatable(f'not a single-character item: {op}')


# ---- Python-side AST (tuples), printed to Coq -------------------------------------------

def _seq(items):
    if not items:
        return ('Eps',)
    out = items[-1]
    for it in reversed(items[:-1]):
        out = ('Seq', it, out)
    return out


def _alt(items):
    out = items[-1]
    for it in reversed(items[:-1]):
        out = ('Alt', it, out)
    return out


def nullable(r):
    t = r[0]
    if t == 'Eps':
        return True
    if t == 'Chr':
        return False
    if t == 'Seq':
        return nullable(r[1]) and nullable(r[2])
    if t == 'Alt':
        return nullable(r[1]) or nullable(r[2])
    if t == 'Rep':
        return r[2] == 0 or nullable(r[4])
    if t == 'Grp':
        return nullable(r[2])
    return True


def walk(sub, flags):
    items = []
    for op, av in sub:
        if op in (K.LITERAL, K.NOT_LITERAL, K.IN, K.ANY):
            items.append(('Chr', charset((op, av), flags)))
        elif op is K.BRANCH:
            items.append(_alt([walk(a, flags) for a in av[1]]))
        elif op is K.SUBPATTERN:
            group, add, dele, p = av
            if add or dele:
                raise Untranslatable('inline flags')
            inner = walk(p, flags)
            items.append(inner if group is None else ('Grp', group, inner))
        elif op in (K.MAX_REPEAT, K.MIN_REPEAT):
            mn, mx, p = av
            body = walk(p, flags)
            if nullable(body):
                raise Untranslatable('repetition over a nullable body')
            items.append(('Rep', op is K.MAX_REPEAT, int(mn), None if mx is K.MAXREPEAT else int(mx), body))
        elif op in (K.ASSERT, K.ASSERT_NOT):
            direction, p = av
            neg = op is K.ASSERT_NOT
            if direction >= 0:
                items.append(('Look', neg, walk(p, flags)))
            else:
                pl = list(p)
                if len(pl) == 1 and pl[0][0] in (K.LITERAL, K.NOT_LITERAL, K.IN, K.ANY):
                    items.append(('Behind', neg, charset(pl[0], flags)))
                elif len(pl) == 1 and pl[0][0] is K.AT and pl[0][1] is K.AT_BEGINNING and not neg:
                    items.append(('BehindStart',))
                else:
                    raise Untranslatable('look-behind shape')
        elif op is K.AT:
            if flags & re.M:
                raise Untranslatable('MULTILINE anchors')
            if av is K.AT_BEGINNING or av is K.AT_BEGINNING_STRING:
                items.append(('AtStart',))
            elif av is K.AT_END:
                items.append(('AtEnd',))
            elif av is K.AT_END_STRING:
                items.append(('AtEndStrict',))
            else:
                raise Untranslatable(f'anchor {av}')
        else:
            raise Untranslatable(f'opcode {op}')
    return _seq(items)


def translate(pattern: str, flags: int):
    """-> (ast, groupindex dict, ngroups)"""
    tree = P.parse(pattern, flags)
    f = tree.state.flags
    ast_ = walk(tree, f)
    return ast_, dict(tree.state.groupdict), tree.state.groups - 1


def coq_cset(rs):
    return '[' + '; '.join(f'({a}, {b})' for a, b in rs) + ']%N'


def coq_re(r):
    t = r[0]
    if t in ('Eps', 'BehindStart', 'AtStart', 'AtEnd', 'AtEndStrict'):
        return t
    if t == 'Chr':
        return f'(Chr {coq_cset(r[1])})'
    if t in ('Seq', 'Alt'):
        return f'({t} {coq_re(r[1])} {coq_re(r[2])})'
    if t == 'Rep':
        mx = 'None' if r[3] is None else f'(Some {r[3]})'
        return f'(Rep {"true" if r[1] else "false"} {r[2]} {mx} {coq_re(r[4])})'
    if t == 'Look':
        return f'(Look {"true" if r[1] else "false"} {coq_re(r[2])})'
    if t == 'Behind':
        return f'(Behind {"true" if r[1] else "false"} {coq_cset(r[2])})'
    if t == 'Grp':
        return f'(Grp {r[1]} {coq_re(r[2])})'
    raise AssertionError(t)


def coq_str(s: str):
    return '[' + '; '.join(str(ord(c)) for c in s) + ']%N' if s else '(@nil N)'


# ---- a Python mirror of Regex.ends, used by E3 to pre-validate and by oracles ---------------

def py_ends(r, s, i, caps):
    """Generator version of Regex.ends (same priorities)."""
    t = r[0]
    if t == 'Eps':
        yield i, caps
    elif t == 'Chr':
        if i < len(s):
            c = ord(s[i])
            for a, b in r[1]:
                if a <= c <= b:
                    yield i + 1, caps
                    break
    elif t == 'Seq':
        for j, c in py_ends(r[1], s, i, caps):
            yield from py_ends(r[2], s, j, c)
    elif t == 'Alt':
        yield from py_ends(r[1], s, i, caps)
        yield from py_ends(r[2], s, i, caps)
    elif t == 'Rep':
        yield from _py_rep(r[4], r[1], r[2], r[3], s, i, caps)
    elif t == 'Look':
        first = next(py_ends(r[2], s, i, caps), None)
        if first is None:
            if r[1]:
                yield i, caps
        elif not r[1]:
            yield i, first[1]
    elif t == 'Behind':
        if i > 0:
            c = ord(s[i - 1])
            mem = any(a <= c <= b for a, b in r[2])
            if mem != r[1]:
                yield i, caps
        elif r[1]:
            yield i, caps
    elif t in ('BehindStart', 'AtStart'):
        if i == 0:
            yield i, caps
    elif t == 'AtEnd':
        if i == len(s) or (i == len(s) - 1 and s[i] == '\n'):
            yield i, caps
    elif t == 'AtEndStrict':
        if i == len(s):
            yield i, caps
    elif t == 'Grp':
        for j, c in py_ends(r[2], s, i, caps):
            yield j, {**c, r[1]: (i, j)}
    else:
        raise AssertionError(t)


def _py_rep(body, greedy, mn, mx, s, i, caps):
    def more():
        if mx == 0:
            return
        for j, c in py_ends(body, s, i, caps):
            if j > i:
                yield from _py_rep(body, greedy, max(mn - 1, 0), None if mx is None else mx - 1, s, j, c)
    if mn > 0:
        yield from more()
    elif greedy:
        yield from more()
        yield i, caps
    else:
        yield i, caps
        yield from more()


def py_match(r, s, i=0):
    return next(py_ends(r, s, i, {}), None)


# ---- collection of the live pattern objects --------------------------------------------------

def collect():
    """name -> re.Pattern, read from the live modules (caller sets PYTHONPATH)."""
    import soupsieve  # noqa: F401  (import order matters on an unfixed tree)
    from soupsieve import css_parser as cp, css_match as cm, util, pretty
    out = {}
    for mod, prefix in ((cp, 'cp_'), (cm, 'cm_'), (util, 'util_'), (pretty, 'pretty_')):
        for name in sorted(vars(mod)):
            v = getattr(mod, name)
            if isinstance(v, re.Pattern):
                out[prefix + name] = v
    toks = []
    for t in cp.CSSParser.css_tokens:
        if isinstance(t, cp.SpecialPseudoPattern):
            out['sp_re_pseudo_name'] = t.re_pseudo_name
            seen = {}
            for pseudo, pat in t.patterns.items():
                nm = pat.name
                if nm not in seen:
                    seen[nm] = pat
                    out['tok_' + nm] = pat.re_pattern
            toks.append(('special', {pseudo: pat.name for pseudo, pat in t.patterns.items()}))
        elif type(t) is cp.SelectorPattern:
            out['tok_' + t.name] = t.re_pattern
            toks.append(('simple', t.name))
        else:
            toks.append(('unknown', type(t).__name__))
    return out, toks


def generate():
    pats, toks = collect()
    lines = ['(* GENERATED by harness/translate/t1_regex.py from the live soupsieve modules - do not edit *)',
             'From SV Require Import Base Regex.', '']
    status, asts = {}, {}
    names_ok = []
    for name, p in pats.items():
        try:
            a, groups, ngroups = translate(p.pattern, p.flags)
            asts[name] = (a, groups)
            lines.append(f'Definition {name} : re :=\n  {coq_re(a)}.')
            for g, idx in sorted(groups.items(), key=lambda kv: kv[1]):
                lines.append(f'Definition {name}_g_{g} : nat := {idx}.')
            names_ok.append(name)
            status[name] = 'ok'
        except Untranslatable as ex:
            lines.append(f'(* {name}: untranslatable: {ex} *)\nDefinition {name}_untranslatable : unit := tt.')
            status[name] = f'untranslatable: {ex}'
        lines.append('')
    lines.append('Definition all_patterns : list re :=\n  [' + '; '.join(names_ok) + '].')
    lines.append('Definition pattern_table : list (str * re) :=\n  [' + ';\n   '.join(f'({coq_str(n)}, {n})' for n in names_ok) + '].')
    # the token table, in the order selector_iter tries it
    tl = []
    ok = True
    for kind, v in toks:
        if kind == 'simple' and status.get('tok_' + v) == 'ok':
            tl.append(f'TokSimple {coq_str(v)} tok_{v}')
        elif kind == 'special' and status.get('sp_re_pseudo_name') == 'ok' and all(status.get('tok_' + n) == 'ok' for n in v.values()):
            ent = '; '.join(f'({coq_str(ps)}, ({coq_str(n)}, tok_{n}))' for ps, n in v.items())
            tl.append(f'TokSpecial sp_re_pseudo_name sp_re_pseudo_name_g_name [{ent}]')
        else:
            ok = False
    lines.append('')
    lines.append('Inductive tokspec :=\n| TokSimple (name : str) (r : re)\n'
                 '| TokSpecial (name_re : re) (name_group : nat) (table : list (str * (str * re))).')
    if ok:
        lines.append('Definition css_tokens : list tokspec :=\n  [' + ';\n   '.join(tl) + '].')
    else:
        lines.append('Definition css_tokens_untranslatable : unit := tt.')
    return '\n'.join(lines) + '\n', status, asts, pats


if __name__ == '__main__':
    import sys
    t, st, _, _ = generate()
    sys.stdout.write(t)
    print({k: v for k, v in st.items() if v != 'ok'}, len(st), file=sys.stderr)
