"""T4 - translate small pure Python functions of soupsieve to Gallina (fail-closed).

Fragment: int constants, names (parameters, locals, module-level int / int-tuple
constants), comparisons (chained), and/or/not, + - * // % (constant non-zero divisor),
`in <module tuple constant>`, conditional expressions, `x = e`, if/elif/else, return.
A small table of *external calls* maps an exact expression (by ast.dump) to a
hand-written model of a standard-library function (listed in the trusted base).

Anything else raises Untranslatable; the caller then emits
`Definition <name>_untranslatable : unit := tt.` instead of the definition, so that
every proof depending on it fails.
"""
from __future__ import annotations
import ast


class Untranslatable(Exception):
    pass


# expression (ast.dump, no attributes) -> (coq function applied to these arg names, raising?)
EXTERNALS = {}


def _ext(src, coq, args):
    EXTERNALS[ast.dump(ast.parse(src, mode='eval').body)] = (coq, args)


_ext('datetime.strptime(f"{12}-{31}-{year}", "%m-%d-%Y").isocalendar()[1]', 'py_isoweek_dec31', ['year'])


class Ctx:
    def __init__(self, consts):
        self.consts = consts          # module-level name -> int | tuple[int]
        self.used_consts = set()
        self.monadic = False


def z(n):
    return f'({n})' if n < 0 else f'{n}'


def tr_expr(e, env, cx):
    """Return (coq, type) with type in {'Z','bool'}."""
    if isinstance(e, ast.Constant):
        if isinstance(e.value, bool):
            return ('true' if e.value else 'false'), 'bool'
        if isinstance(e.value, int):
            return z(e.value), 'Z'
        raise Untranslatable(f'constant {e.value!r}')
    if isinstance(e, ast.Name):
        if e.id in env:
            return e.id, env[e.id]
        if e.id in cx.consts and isinstance(cx.consts[e.id], int):
            cx.used_consts.add(e.id)
            return f'c_{e.id}', 'Z'
        raise Untranslatable(f'name {e.id}')
    if isinstance(e, ast.UnaryOp):
        v, t = tr_expr(e.operand, env, cx)
        if isinstance(e.op, ast.Not) and t == 'bool':
            return f'(negb {v})', 'bool'
        if isinstance(e.op, ast.USub) and t == 'Z':
            return f'(- {v})', 'Z'
        raise Untranslatable('unary')
    if isinstance(e, ast.BoolOp):
        parts = [tr_expr(v, env, cx) for v in e.values]
        if any(t != 'bool' for _, t in parts):
            raise Untranslatable('and/or over non-bool')
        op = ' && ' if isinstance(e.op, ast.And) else ' || '
        return '(' + op.join(p for p, _ in parts) + ')', 'bool'
    if isinstance(e, ast.BinOp):
        a, ta = tr_expr(e.left, env, cx)
        b, tb = tr_expr(e.right, env, cx)
        if ta != 'Z' or tb != 'Z':
            raise Untranslatable('arith over non-int')
        if isinstance(e.op, ast.Add):
            return f'({a} + {b})', 'Z'
        if isinstance(e.op, ast.Sub):
            return f'({a} - {b})', 'Z'
        if isinstance(e.op, ast.Mult):
            return f'({a} * {b})', 'Z'
        if isinstance(e.op, (ast.FloorDiv, ast.Mod)):
            if not (isinstance(e.right, ast.Constant) and isinstance(e.right.value, int) and e.right.value > 0):
                raise Untranslatable('division by a non-constant or non-positive divisor')
            return (f'({a} / {b})' if isinstance(e.op, ast.FloorDiv) else f'({a} mod {b})'), 'Z'
        raise Untranslatable('binop')
    if isinstance(e, ast.Compare):
        items = [e.left] + list(e.comparators)
        out = []
        for op, l, r in zip(e.ops, items, items[1:]):
            if isinstance(op, (ast.In, ast.NotIn)):
                lv, lt = tr_expr(l, env, cx)
                if lt != 'Z' or not isinstance(r, ast.Name) or not isinstance(cx.consts.get(r.id), tuple):
                    raise Untranslatable('in over non-constant tuple')
                cx.used_consts.add(r.id)
                s = f'(inb {lv} c_{r.id})'
                out.append(s if isinstance(op, ast.In) else f'(negb {s})')
                continue
            lv, lt = tr_expr(l, env, cx)
            rv, rt = tr_expr(r, env, cx)
            if lt != 'Z' or rt != 'Z':
                raise Untranslatable('comparison over non-int')
            tab = {ast.Lt: '<?', ast.LtE: '<=?', ast.Gt: '>?', ast.GtE: '>=?', ast.Eq: '=?'}
            if type(op) in tab:
                out.append(f'({lv} {tab[type(op)]} {rv})')
            elif isinstance(op, ast.NotEq):
                out.append(f'(negb ({lv} =? {rv}))')
            else:
                raise Untranslatable('comparison operator')
        return ('(' + ' && '.join(out) + ')' if len(out) > 1 else out[0]), 'bool'
    if isinstance(e, ast.IfExp):
        c, tc = tr_expr(e.test, env, cx)
        a, ta = tr_expr(e.body, env, cx)
        b, tb = tr_expr(e.orelse, env, cx)
        if tc != 'bool' or ta != tb:
            raise Untranslatable('conditional expression')
        return f'(if {c} then {a} else {b})', ta
    raise Untranslatable(type(e).__name__)


def assigned(stmts):
    out = []
    for s in stmts:
        if isinstance(s, ast.Assign):
            for t in s.targets:
                if not isinstance(t, ast.Name):
                    raise Untranslatable('assignment target')
                if t.id not in out:
                    out.append(t.id)
        elif isinstance(s, ast.If):
            for v in assigned(s.body) + assigned(s.orelse):
                if v not in out:
                    out.append(v)
        elif isinstance(s, ast.Return) or _is_doc(s):
            pass
        else:
            raise Untranslatable(type(s).__name__)
    return out


def _is_doc(s):
    return isinstance(s, ast.Expr) and isinstance(s.value, ast.Constant) and isinstance(s.value.value, str)


def always_returns(stmts):
    if not stmts:
        return False
    last = stmts[-1]
    if isinstance(last, ast.Return):
        return True
    if isinstance(last, ast.If):
        return always_returns(last.body) and always_returns(last.orelse)
    return False


def tr_block(stmts, env, cx, tail, rtype):
    """Translate a statement list.  `tail(env)` produces the text that follows when the
    block falls through (None = falling through is an error).  rtype is a 1-element list
    receiving the function's return type."""
    if not stmts:
        if tail is None:
            raise Untranslatable('function may fall off its end')
        return tail(env)
    s, rest = stmts[0], stmts[1:]
    if _is_doc(s):
        return tr_block(rest, env, cx, tail, rtype)
    if isinstance(s, ast.Return):
        if s.value is None:
            raise Untranslatable('bare return')
        v, t = tr_expr(s.value, env, cx)
        if rtype[0] not in (None, t):
            raise Untranslatable('inconsistent return type')
        rtype[0] = t
        return f'Ok {v}' if cx.monadic else v
    if isinstance(s, ast.Assign):
        if len(s.targets) != 1 or not isinstance(s.targets[0], ast.Name):
            raise Untranslatable('assignment form')
        name = s.targets[0].id
        key = ast.dump(s.value)
        if key in EXTERNALS:
            fn, args = EXTERNALS[key]
            if any(a not in env for a in args):
                raise Untranslatable('external call arguments')
            if not cx.monadic:
                raise Untranslatable('external call in non-monadic function')
            env2 = dict(env)
            env2[name] = 'Z'
            k = tr_block(rest, env2, cx, tail, rtype)
            return f'match {fn} {" ".join(args)} with Raise e => Raise e | Ok {name} =>\n  {k}\n  end'
        v, t = tr_expr(s.value, env, cx)
        env2 = dict(env)
        env2[name] = t
        return f'let {name} := {v} in\n  ' + tr_block(rest, env2, cx, tail, rtype)
    if isinstance(s, ast.If):
        c, tc = tr_expr(s.test, env, cx)
        if tc != 'bool':
            raise Untranslatable('if over non-bool')
        if always_returns(s.body):
            a = tr_block(s.body, env, cx, None, rtype)
            b = tr_block(list(s.orelse) + rest, env, cx, tail, rtype)
            return f'if {c} then ({a}) else ({b})'
        vs = assigned([s])
        for v in vs:
            if v not in env:
                raise Untranslatable(f'{v} assigned only conditionally')

        def tup(env_):
            return vs[0] if len(vs) == 1 else '(' + ', '.join(vs) + ')'
        # branches are evaluated as pure expressions producing the assigned variables
        cx2_monadic = cx.monadic
        cx.monadic = False
        try:
            a = tr_block(s.body, env, cx, tup, [None])
            b = tr_block(s.orelse, env, cx, tup, [None])
        finally:
            cx.monadic = cx2_monadic
        pat = vs[0] if len(vs) == 1 else "'(" + ', '.join(vs) + ')'
        return f'let {pat} := (if {c} then ({a}) else ({b})) in\n  ' + tr_block(rest, env, cx, tail, rtype)
    raise Untranslatable(type(s).__name__)


def uses_external(fn):
    for n in ast.walk(fn):
        if isinstance(n, ast.expr) and ast.dump(n) in EXTERNALS:
            return True
    return False


def translate_function(fn: ast.FunctionDef, consts, coq_name=None, skip_args=()):
    cx = Ctx(consts)
    cx.monadic = uses_external(fn)
    params = [a.arg for a in fn.args.args if a.arg not in skip_args]
    env = {p: 'Z' for p in params}
    rtype = [None]
    body = tr_block(fn.body, env, cx, None, rtype)
    ret = rtype[0] or 'bool'
    rt = f'res {ret}' if cx.monadic else ret
    name = coq_name or fn.name
    text = f'Definition {name} ({" ".join(params)} : Z) : {rt} :=\n  {body}.\n'
    return text, cx.used_consts


def module_int_consts(tree):
    consts = {}
    for s in tree.body:
        if isinstance(s, ast.Assign) and len(s.targets) == 1 and isinstance(s.targets[0], ast.Name):
            try:
                v = ast.literal_eval(s.value)
            except Exception:
                continue
            if isinstance(v, int) and not isinstance(v, bool):
                consts[s.targets[0].id] = v
            elif isinstance(v, tuple) and all(isinstance(x, int) for x in v):
                consts[s.targets[0].id] = v
    return consts


def generate(repo):
    """Return the text of gen/PureGen.v."""
    src = open(f'{repo}/soupsieve/css_match.py').read()
    tree = ast.parse(src)
    consts = module_int_consts(tree)
    out = ['(* GENERATED by harness/translate/t4_pure.py from soupsieve/css_match.py - do not edit *)',
           'From SV Require Import Base Calendar.', 'Local Open Scope Z_scope.', 'Local Open Scope bool_scope.',
           'Definition inb (x : Z) (l : list Z) : bool := existsb (Z.eqb x) l.', '']
    inputs = [n for n in tree.body if isinstance(n, ast.ClassDef) and n.name == 'Inputs']
    wanted = ['validate_day', 'validate_week', 'validate_month', 'validate_year', 'validate_hour', 'validate_minutes']
    fns = {}
    if inputs:
        for n in inputs[0].body:
            if isinstance(n, ast.FunctionDef):
                fns[n.name] = n
    defs, used, status = [], set(), {}
    for w in wanted:
        try:
            if w not in fns:
                raise Untranslatable('function not found')
            text, u = translate_function(fns[w], consts, skip_args=('cls', 'self'))
            defs.append(text)
            used |= u
            status[w] = 'ok'
        except Untranslatable as ex:
            defs.append(f'(* {w}: untranslatable: {ex} *)\nDefinition {w}_untranslatable : unit := tt.\n')
            status[w] = f'untranslatable: {ex}'
    for c in sorted(used):
        v = consts[c]
        if isinstance(v, int):
            out.append(f'Definition c_{c} : Z := {z(v)}.')
        else:
            out.append(f'Definition c_{c} : list Z := [{"; ".join(z(x) for x in v)}].')
    out.append('')
    out += defs
    return '\n'.join(out), status


if __name__ == '__main__':
    import sys
    t, st = generate(sys.argv[1] if len(sys.argv) > 1 else '/repo')
    print(t)
    print(st, file=sys.stderr)
