"""T5 - import-time action lists of every module of the packages `soupsieve` (from REPO) and `bs4` (installed),
read with `ast`.  Only what matters for circular imports is kept:

  Import m            import m            (m inside the two packages; anything else is assumed importable)
  From m [names]      from m import names
  Define n            a top-level binding (def, class, assignment, import-as target)
  Use m a             an attribute of a tracked module evaluated WHILE THE MODULE BODY RUNS (class bases,
                      decorators, default arguments, class bodies, module-level expressions)
  DynUse m            getattr/hasattr/vars/dir on a tracked module while the body runs (value unknown statically)
  Try body            try: ... except ImportError (the only exception type the two packages catch around imports)

Function bodies are not import-time code.  Annotations are skipped when the module has
`from __future__ import annotations`.  `if TYPE_CHECKING:` blocks are skipped.  Fail-closed: a construct that
binds module aliases in a way the walker does not understand produces DynUse."""
import ast, os


def coq_str(s):
    return '[' + '; '.join(str(ord(c)) for c in s) + ']%N' if s else '(@nil N)'


class Mod:
    def __init__(self, name, path, is_pkg):
        self.name, self.path, self.is_pkg = name, path, is_pkg
        self.actions = []


def discover(pkgname, root):
    out = {}
    for dp, dns, fns in os.walk(root):
        dns[:] = [d for d in dns if d != '__pycache__']
        for f in fns:
            if not f.endswith('.py'):
                continue
            rel = os.path.relpath(os.path.join(dp, f), root)
            parts = rel[:-3].split(os.sep)
            is_pkg = parts[-1] == '__init__'
            if is_pkg:
                parts = parts[:-1]
            name = '.'.join([pkgname] + parts)
            out[name] = Mod(name, os.path.join(dp, f), is_pkg)
    return out


class Walker:
    def __init__(self, mod, universe):
        self.mod, self.universe = mod, universe
        self.aliases = {}     # local name -> tracked module name
        self.future_ann = False

    def pkg_of(self):
        return self.mod.name if self.mod.is_pkg else self.mod.name.rsplit('.', 1)[0]

    def resolve(self, module, level):
        if level == 0:
            return module
        base = self.pkg_of().split('.')
        if level > 1:
            base = base[:-(level - 1)]
        return '.'.join(base + ([module] if module else []))

    def tracked(self, name):
        return name.split('.')[0] in ('bs4', 'soupsieve')

    # ---- expressions evaluated at import time
    def uses(self, node, out):
        if node is None:
            return
        for n in ast.walk(node):
            if isinstance(n, (ast.Lambda,)):
                continue
            if isinstance(n, ast.Attribute):
                chain = []
                x = n
                while isinstance(x, ast.Attribute):
                    chain.append(x.attr)
                    x = x.value
                if isinstance(x, ast.Name) and x.id in self.aliases:
                    chain.reverse()
                    m = self.aliases[x.id]
                    # descend through submodules
                    i = 0
                    while i < len(chain) and (m + '.' + chain[i]) in self.universe:
                        m = m + '.' + chain[i]
                        i += 1
                    if i < len(chain):
                        out.append(('Use', m, chain[i]))
            if isinstance(n, ast.Call) and isinstance(n.func, ast.Name) and n.func.id in ('getattr', 'hasattr', 'vars', 'dir', 'setattr'):
                if n.args and isinstance(n.args[0], ast.Name) and n.args[0].id in self.aliases:
                    out.append(('DynUse', self.aliases[n.args[0].id]))

    def stmts(self, body, out, in_class=False):
        for s in body:
            if isinstance(s, ast.ImportFrom) and s.module == '__future__':
                if any(a.name == 'annotations' for a in s.names):
                    self.future_ann = True
                continue
            if isinstance(s, ast.Import):
                for a in s.names:
                    if self.tracked(a.name):
                        out.append(('Import', a.name))
                        if a.asname:
                            self.aliases[a.asname] = a.name
                            out.append(('Define', a.asname))
                        else:
                            top = a.name.split('.')[0]
                            self.aliases[top] = top
                            out.append(('Define', top))
                    else:
                        out.append(('Define', a.asname or a.name.split('.')[0]))
            elif isinstance(s, ast.ImportFrom):
                m = self.resolve(s.module, s.level)
                if self.tracked(m):
                    names = [a.name for a in s.names]
                    out.append(('From', m, names))
                    for a in s.names:
                        local = a.asname or a.name
                        if (m + '.' + a.name) in self.universe:
                            self.aliases[local] = m + '.' + a.name
                        out.append(('Define', local))
                else:
                    for a in s.names:
                        out.append(('Define', a.asname or a.name))
            elif isinstance(s, (ast.FunctionDef, ast.AsyncFunctionDef)):
                for d in s.decorator_list:
                    self.uses(d, out)
                for d in s.args.defaults + [k for k in s.args.kw_defaults if k is not None]:
                    self.uses(d, out)
                if not self.future_ann:
                    for a in s.args.args + s.args.kwonlyargs:
                        self.uses(a.annotation, out)
                    self.uses(s.returns, out)
                if not in_class:
                    out.append(('Define', s.name))
            elif isinstance(s, ast.ClassDef):
                for d in s.decorator_list + s.bases + [k.value for k in s.keywords]:
                    self.uses(d, out)
                self.stmts(s.body, out, in_class=True)
                if not in_class:
                    out.append(('Define', s.name))
            elif isinstance(s, ast.If):
                t = ast.unparse(s.test)
                if 'TYPE_CHECKING' in t:
                    self.stmts(s.orelse, out, in_class)
                    continue
                self.uses(s.test, out)
                self.stmts(s.body, out, in_class)
                self.stmts(s.orelse, out, in_class)
            elif isinstance(s, ast.Try):
                body = []
                self.stmts(s.body, body, in_class)
                catches = [ast.unparse(h.type) if h.type is not None else 'BaseException' for h in s.handlers]
                if any(c in ('ImportError', 'ModuleNotFoundError', 'Exception', 'BaseException', '(ImportError, AttributeError)') for c in catches):
                    hb = []
                    for h in s.handlers:
                        self.stmts(h.body, hb, in_class)
                    out.append(('Try', body, hb, catches))
                else:
                    out.extend(body)
                self.stmts(s.orelse, out, in_class)
                self.stmts(s.finalbody, out, in_class)
            elif isinstance(s, (ast.Assign, ast.AnnAssign, ast.AugAssign)):
                val = s.value
                self.uses(val, out)
                if isinstance(s, ast.AnnAssign) and not self.future_ann:
                    self.uses(s.annotation, out)
                tg = s.targets if isinstance(s, ast.Assign) else [s.target]
                for t in tg:
                    for n in ast.walk(t):
                        if isinstance(n, ast.Name) and not in_class:
                            out.append(('Define', n.id))
                            # an alias of a tracked module:  x = bs4
                            if isinstance(val, ast.Name) and val.id in self.aliases:
                                self.aliases[n.id] = self.aliases[val.id]
            elif isinstance(s, (ast.Expr, ast.Return, ast.Assert, ast.Delete, ast.Raise)):
                self.uses(s, out)
            elif isinstance(s, (ast.For, ast.While, ast.With)):
                self.uses(getattr(s, 'iter', None) or getattr(s, 'test', None), out)
                for it in getattr(s, 'items', []):
                    self.uses(it.context_expr, out)
                self.stmts(s.body, out, in_class)
            elif isinstance(s, (ast.Pass, ast.Global, ast.Nonlocal)):
                pass
            else:
                out.append(('DynUse', self.mod.name))


def show(a, ids):
    k = a[0]
    if k == 'Import':
        return f'AImport {ids[a[1]]}'
    if k == 'From':
        return f'AFrom {ids[a[1]]} [' + '; '.join(coq_str(n) for n in a[2]) + ']'
    if k == 'Define':
        return f'ADefine {coq_str(a[1])}'
    if k == 'Use':
        return f'AUse {ids[a[1]]} {coq_str(a[2])}'
    if k == 'DynUse':
        return f'ADynUse {ids[a[1]]}'
    if k == 'Try':
        return 'ATry [' + '; '.join(show(x, ids) for x in a[1]) + '] [' + '; '.join(show(x, ids) for x in a[2]) + ']'
    raise AssertionError(k)


def generate(repo):
    import importlib.util
    spec = importlib.util.find_spec('bs4')
    bs4_root = os.path.dirname(spec.origin)
    universe = {}
    universe.update(discover('soupsieve', os.path.join(repo, 'soupsieve')))
    universe.update(discover('bs4', bs4_root))
    names = sorted(universe)
    ids = {}

    def mid(n):
        # a tracked name outside the discovered universe (e.g. bs4.tests) gets an id too, with no actions
        if n not in ids:
            ids[n] = len(ids)
        return ids[n]
    for n in names:
        mid(n)
    status = {}
    acts = {}
    for n in names:
        m = universe[n]
        try:
            tree = ast.parse(open(m.path).read())
            w = Walker(m, universe)
            out = []
            w.stmts(tree.body, out)
            # a module-level call may run any function body of this module at import time: count the
            # attribute uses of ALL function bodies as import-time uses (conservative)
            local_defs = {n_.name for n_ in ast.walk(tree) if isinstance(n_, (ast.FunctionDef, ast.ClassDef))}
            calls_local = False
            for st_ in tree.body:
                if isinstance(st_, (ast.FunctionDef, ast.AsyncFunctionDef, ast.ClassDef, ast.Import, ast.ImportFrom)):
                    continue
                for c_ in ast.walk(st_):
                    if isinstance(c_, ast.Call):
                        f_ = c_.func
                        while isinstance(f_, (ast.Attribute, ast.Call)):
                            f_ = f_.value if isinstance(f_, ast.Attribute) else f_.func
                        if isinstance(f_, ast.Name) and f_.id in local_defs:
                            calls_local = True
            if calls_local:
                extra = []
                for fn_ in ast.walk(tree):
                    if isinstance(fn_, (ast.FunctionDef, ast.AsyncFunctionDef)):
                        for b_ in fn_.body:
                            w.uses(b_, extra)
                seen_ = set()
                for e_ in extra:
                    if e_ not in seen_:
                        seen_.add(e_)
                        out.append(e_)
            # register every referenced tracked module
            def reg(a):
                if a[0] in ('Import', 'From', 'Use', 'DynUse'):
                    mid(a[1])
                if a[0] == 'Try':
                    for x in a[1] + a[2]:
                        reg(x)
            for a in out:
                reg(a)
            acts[n] = out
        except Exception as ex:
            acts[n] = [('DynUse', n)]
            status[n] = f'untranslatable: {ex!r}'
    lines = ['(* GENERATED by harness/translate/t5_imports.py from soupsieve/*.py and the installed bs4 - do not edit *)',
             'From SV Require Import Base Imports.', '']
    allnames = sorted(ids, key=lambda k: ids[k])
    lines.append('Definition module_names : list (nat * str) :=\n  [' + ';\n   '.join(f'({ids[n]}, {coq_str(n)})' for n in allnames) + '].')
    # parent package of each module (None for a top-level package)
    lines.append('Definition module_parent : list (nat * option nat) :=\n  [' +
                 '; '.join(f'({ids[n]}, {"Some " + str(ids[n.rsplit(".", 1)[0]]) if "." in n and n.rsplit(".", 1)[0] in ids else "None"})' for n in allnames) + '].')
    lines.append('Definition module_basename : list (nat * str) :=\n  [' + '; '.join(f'({ids[n]}, {coq_str(n.rsplit(".", 1)[-1])})' for n in allnames) + '].')
    lines.append('Definition module_actions : list (nat * list action) :=\n  [' +
                 ';\n   '.join(f'({ids[n]}, [' + ';\n      '.join(show(a, ids) for a in acts.get(n, [])) + '])' for n in allnames) + '].')
    for n in ('bs4', 'soupsieve', 'soupsieve.css_match', 'soupsieve.css_parser', 'soupsieve.css_types', 'soupsieve.util',
              'soupsieve.pretty', 'bs4.element', 'bs4.css'):
        if n in ids:
            lines.append(f'Definition M_{n.replace(".", "_")} : nat := {ids[n]}.')
    return '\n'.join(lines) + '\n', status or 'ok', {n: acts.get(n, []) for n in allnames}


if __name__ == '__main__':
    import sys
    t, st, acts = generate(sys.argv[1] if len(sys.argv) > 1 else '/repo')
    for n, a in acts.items():
        if n.startswith('soupsieve') or n in ('bs4.css',):
            print(n, [x for x in a if x[0] != 'Define'][:14])
    print(st, len(t))
