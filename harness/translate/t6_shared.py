"""T6 - summary of writes to state shared between calls (and therefore between threads), read with `ast` from every
soupsieve module.  Conservative: an unknown store target counts as shared.

Reported:
  (i)   stores / mutating method calls on `self.<attr>` in methods (other than __init__/__new__) of classes that are
        instantiated at module level or in a class body (their instances are shared by every call);
  (ii)  stores / mutating calls / `global` rebinding of module-level names inside functions;
  (iii) functions memoised with lru_cache/cache whose result is not one of the immutable result types."""
import ast, os

MUTATORS = {'append', 'extend', 'insert', 'remove', 'pop', 'clear', 'update', 'setdefault', 'add', 'discard', 'sort',
            'reverse', 'popitem', '__setitem__', '__delitem__'}
IMMUTABLE_RESULTS = {'str', 'int', 'bool', 'float', 'cm.SoupSieve', 'SoupSieve', 'ct.SelectorList', 'bytes', 'None'}


def coq_str(s):
    return '[' + '; '.join(str(ord(c)) for c in s) + ']%N' if s else '(@nil N)'


def root_name(node):
    while isinstance(node, (ast.Attribute, ast.Subscript)):
        node = node.value
    return node.id if isinstance(node, ast.Name) else None


def local_names(fn):
    names = {a.arg for a in fn.args.args + fn.args.kwonlyargs + fn.args.posonlyargs}
    if fn.args.vararg:
        names.add(fn.args.vararg.arg)
    if fn.args.kwarg:
        names.add(fn.args.kwarg.arg)
    globs = set()
    for n in ast.walk(fn):
        if isinstance(n, ast.Global):
            globs.update(n.names)
    for n in ast.walk(fn):
        if isinstance(n, ast.Name) and isinstance(n.ctx, (ast.Store, ast.Del)) and n.id not in globs:
            names.add(n.id)
        if isinstance(n, (ast.FunctionDef, ast.ClassDef)) and n is not fn:
            names.add(n.name)
        if isinstance(n, ast.ExceptHandler) and n.name:
            names.add(n.name)
        if isinstance(n, (ast.Import, ast.ImportFrom)):
            for a in n.names:
                names.add((a.asname or a.name).split('.')[0])
    return names, globs


def analyse(path, modname):
    tree = ast.parse(open(path).read())
    findings = []
    mod_globals = set()
    classes = {}
    for s in tree.body:
        if isinstance(s, (ast.Assign, ast.AnnAssign)):
            for t in (s.targets if isinstance(s, ast.Assign) else [s.target]):
                for n in ast.walk(t):
                    if isinstance(n, ast.Name):
                        mod_globals.add(n.id)
        if isinstance(s, ast.ClassDef):
            classes[s.name] = s
    # classes instantiated at module level or in a class body (not inside a function)
    shared = set()

    def scan_calls(node):
        # an instance used only as the receiver of an immediate method call (C(...).m(...)) is a temporary
        temporaries = set()
        for n in ast.walk(node):
            if isinstance(n, ast.Attribute) and isinstance(n.value, ast.Call) and isinstance(n.value.func, ast.Name):
                temporaries.add(id(n.value))
                temporaries.add(id(n.value.func))
        for n in ast.walk(node):
            if id(n) in temporaries:
                continue
            if isinstance(n, ast.Call) and isinstance(n.func, ast.Name) and n.func.id in classes:
                shared.add(n.func.id)
            # classes passed as values (e.g. a table of pattern classes) are instantiated by the callee
            if isinstance(n, ast.Name) and n.id in classes and isinstance(n.ctx, ast.Load):
                shared.add(n.id)
    for s in tree.body:
        if isinstance(s, (ast.FunctionDef, ast.AsyncFunctionDef)):
            continue
        if isinstance(s, ast.ClassDef):
            for b in s.body:
                if not isinstance(b, (ast.FunctionDef, ast.AsyncFunctionDef)):
                    scan_calls(b)
            continue
        scan_calls(s)
    # subclasses of shared classes are shared too, and base classes of shared classes
    changed = True
    while changed:
        changed = False
        for name, c in classes.items():
            bases = {ast.unparse(b) for b in c.bases}
            if name not in shared and bases & shared:
                shared.add(name)
                changed = True
            if name in shared:
                for b in bases:
                    if b in classes and b not in shared:
                        shared.add(b)
                        changed = True

    def stores_in(fn, self_name, where):
        locs, globs = local_names(fn)
        for n in ast.walk(fn):
            targets = []
            if isinstance(n, ast.Assign):
                targets = n.targets
            elif isinstance(n, (ast.AugAssign, ast.AnnAssign)):
                targets = [n.target]
            elif isinstance(n, ast.Delete):
                targets = n.targets
            for t in targets:
                for e in ([t] if not isinstance(t, (ast.Tuple, ast.List)) else t.elts):
                    if isinstance(e, (ast.Attribute, ast.Subscript)):
                        r = root_name(e)
                        if self_name and r == self_name:
                            findings.append((modname, where, f'store to {ast.unparse(e)} on a shared instance'))
                        elif r is not None and r not in locs and r in mod_globals:
                            findings.append((modname, where, f'store to module-level {ast.unparse(e)}'))
                    elif isinstance(e, ast.Name) and e.id in globs:
                        findings.append((modname, where, f'rebinds global {e.id}'))
            if isinstance(n, ast.Call) and isinstance(n.func, ast.Attribute) and n.func.attr in MUTATORS:
                r = root_name(n.func.value)
                if isinstance(n.func.value, (ast.Attribute, ast.Subscript, ast.Name)):
                    if self_name and r == self_name and not isinstance(n.func.value, ast.Name):
                        findings.append((modname, where, f'{ast.unparse(n.func)}() mutates a shared instance'))
                    elif r is not None and r not in locs and r in mod_globals:
                        findings.append((modname, where, f'{ast.unparse(n.func)}() mutates a module-level object'))

    for s in tree.body:
        if isinstance(s, (ast.FunctionDef, ast.AsyncFunctionDef)):
            stores_in(s, None, s.name)
            decos = [ast.unparse(d) for d in s.decorator_list]
            if any('lru_cache' in d or d.endswith('cache') for d in decos):
                ret = ast.unparse(s.returns) if s.returns is not None else '?'
                if ret not in IMMUTABLE_RESULTS:
                    findings.append((modname, s.name, f'memoised function returns {ret}, not an immutable value'))
        if isinstance(s, ast.ClassDef):
            for m in s.body:
                if isinstance(m, (ast.FunctionDef, ast.AsyncFunctionDef)):
                    is_static = any(ast.unparse(d) in ('staticmethod',) for d in m.decorator_list)
                    self_name = None
                    if s.name in shared and m.name not in ('__init__', '__new__') and not is_static and m.args.args:
                        self_name = m.args.args[0].arg
                    stores_in(m, self_name, f'{s.name}.{m.name}')
    return findings, sorted(shared)


def generate(repo):
    out = ['(* GENERATED by harness/translate/t6_shared.py from soupsieve/*.py (ast) - do not edit *)',
           'From SV Require Import Base.', '']
    allf, sh = [], {}
    status = {}
    for f in sorted(os.listdir(os.path.join(repo, 'soupsieve'))):
        if f.endswith('.py'):
            try:
                fi, shared = analyse(os.path.join(repo, 'soupsieve', f), f[:-3])
                allf += fi
                sh[f[:-3]] = shared
            except Exception as ex:
                allf.append((f[:-3], '?', f'untranslatable: {ex!r}'))
                status[f] = repr(ex)
    out.append('(* module, function, what is written *)')
    out.append('Definition shared_writes : list (str * (str * str)) :=\n  [' +
               ';\n   '.join(f'({coq_str(a)}, ({coq_str(b)}, {coq_str(c)}))' for a, b, c in allf) + '].')
    out.append('(* classes whose instances are created at import time and shared by every call: ' +
               '; '.join(f'{m}: {", ".join(v)}' for m, v in sh.items() if v) + ' *)')
    return '\n'.join(out) + '\n', {'findings': [' / '.join(x) for x in allf], 'shared_classes': sh, **status}


if __name__ == '__main__':
    import sys, json
    t, st = generate(sys.argv[1] if len(sys.argv) > 1 else '/repo')
    print(json.dumps(st, indent=1))
