import re, _sre
from re import _constants as K, _casefix

_inv = None


def _build():
    global _inv
    if _inv is None:
        _inv = {}
        for c in range(0x110000):
            _inv.setdefault(_sre.unicode_tolower(c), []).append(c)
    return _inv


def closure(c):
    """code points matched by the literal chr(c) under re.I|re.U (what sre_compile emits: LITERAL_UNI_IGNORE / IN_UNI_IGNORE)"""
    inv = _build()
    if not _sre.unicode_iscased(c):
        return [c]
    lo = _sre.unicode_tolower(c)
    keys = {lo} | set(_casefix._EXTRA_CASES.get(lo, ()))
    out = set()
    for k in keys:
        out.update(inv.get(k, [k]))
    return sorted(out)


def ranges(points):
    out = []
    for c in points:
        if out and out[-1][1] == c - 1:
            out[-1][1] = c
        else:
            out.append([c, c])
    return [(a, b) for a, b in out]


def members_ic(c):
    return ranges(closure(c))


def cased_points():
    return [c for c in range(0x110000) if _sre.unicode_iscased(c)]
