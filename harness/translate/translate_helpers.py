import re
from re import _constants as K
import t1_regex


def members_ic(c):
    """ranges matched by the literal chr(c) under re.I (unicode), as T1 computes them"""
    return t1_regex.charset((K.LITERAL, c), int(re.I | re.U))
