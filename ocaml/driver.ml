(* driver.ml — reads one S-expression per line, evaluates the extracted model, prints one
   result per line.  Only glue: integer <-> nat/N conversion, S-expression reader/printer. *)
type sexp = A of Stdlib.String.t | L of sexp list

let parse_sexp (s : Stdlib.String.t) : sexp =
  let n = Stdlib.String.length s in
  let pos = ref 0 in
  let rec skip () = if !pos < n && (s.[!pos] = ' ' || s.[!pos] = '\t') then (incr pos; skip ()) in
  let rec parse () =
    skip ();
    if !pos >= n then failwith "eof"
    else if s.[!pos] = '(' then begin
      incr pos;
      let items = ref [] in
      let rec loop () =
        skip ();
        if !pos >= n then failwith "unclosed"
        else if s.[!pos] = ')' then incr pos
        else (items := parse () :: !items; loop ()) in
      loop (); L (List.rev !items)
    end else begin
      let st = !pos in
      while !pos < n && s.[!pos] <> ' ' && s.[!pos] <> '(' && s.[!pos] <> ')' do incr pos done;
      A (Stdlib.String.sub s st (!pos - st))
    end in
  parse ()

open Sv

let rec nat_of_int (i : int) : nat = if i <= 0 then O else S (nat_of_int (i - 1))
let rec int_of_nat (n : nat) : int = match n with O -> 0 | S k -> 1 + int_of_nat k
let rec pos_of_int (i : int) : positive =
  if i = 1 then XH else if i land 1 = 0 then XO (pos_of_int (i lsr 1)) else XI (pos_of_int (i lsr 1))
let n_of_int (i : int) : n = if i = 0 then N0 else Npos (pos_of_int i)
let rec int_of_pos (p : positive) : int = match p with XH -> 1 | XO q -> 2 * int_of_pos q | XI q -> 2 * int_of_pos q + 1
let int_of_n (x : n) : int = match x with N0 -> 0 | Npos p -> int_of_pos p

let z_of_int (i : int) : z = if i = 0 then Z0 else if i > 0 then Zpos (pos_of_int i) else Zneg (pos_of_int (- i))
let int_of_z (x : z) : int = match x with Z0 -> 0 | Zpos p -> int_of_pos p | Zneg p -> - (int_of_pos p)
(* big integers are printed in decimal without going through OCaml int *)
let rec pos_to_digits (p : positive) : int list =  (* little-endian base 10 *)
  let double ds carry =
    let rec go ds c = match ds with
      | [] -> if c = 0 then [] else [c]
      | d :: r -> let v = 2 * d + c in (v mod 10) :: go r (v / 10) in
    go ds carry in
  match p with
  | XH -> [1]
  | XO q -> double (pos_to_digits q) 0
  | XI q -> double (pos_to_digits q) 1
let show_pos p = Stdlib.String.concat "" (List.rev_map string_of_int (pos_to_digits p))
let show_z (x : z) = match x with Z0 -> "0" | Zpos p -> show_pos p | Zneg p -> "-" ^ show_pos p
(* decimal string -> Z without overflow *)
let z_of_string (s : Stdlib.String.t) : z =
  let neg = Stdlib.String.length s > 0 && s.[0] = '-' in
  let s' = if neg then Stdlib.String.sub s 1 (Stdlib.String.length s - 1) else s in
  let acc = ref Z0 in
  Stdlib.String.iter (fun ch -> acc := Z.add (Z.mul !acc (z_of_int 10)) (z_of_int (Char.code ch - 48))) s';
  if neg then Z.opp !acc else !acc

let show_exn = function
  | SelectorSyntaxError None -> "(SelectorSyntaxError none)"
  | SelectorSyntaxError (Some p) -> Printf.sprintf "(SelectorSyntaxError %d)" (int_of_nat p)
  | NotImplementedError -> "NotImplementedError" | KeyError -> "KeyError" | TypeError -> "TypeError"
  | ValueError -> "ValueError" | IndexError -> "IndexError" | AttributeError -> "AttributeError"
  | UnicodeDecodeError -> "UnicodeDecodeError" | RecursionError -> "RecursionError" | OutOfFuel -> "OutOfFuel"
let show_res f = function Ok a -> "(ok " ^ f a ^ ")" | Raise e -> "(raise " ^ show_exn e ^ ")"
let show_bool b = if b then "true" else "false"
let show_pv = function
  | PTuple l -> "(tuple " ^ Stdlib.String.concat " " (List.map show_z l) ^ ")"
  | PNum (m, k) -> Printf.sprintf "(num %s %s)" (show_z m) (show_z k)
let show_opt f = function None -> "none" | Some x -> "(some " ^ f x ^ ")"

let atom = function A s -> s | L _ -> failwith "atom expected"
let int_ x = int_of_string (atom x)
let str_ = function L l -> List.map (fun x -> n_of_int (int_ x)) l | A _ -> failwith "list expected"
let key_ x = let s = atom x in List.init (Stdlib.String.length s) (fun i -> n_of_int (Char.code s.[i]))

let show_str (s : n list) = "(" ^ Stdlib.String.concat " " (List.map (fun c -> string_of_int (int_of_n c)) s) ^ ")"
let show_caps caps =
  "(" ^ Stdlib.String.concat " " (List.map (fun (g, (a, b)) ->
    Printf.sprintf "(%d %d %d)" (int_of_nat g) (int_of_nat a) (int_of_nat b)) caps) ^ ")"

let find_pattern name =
  let rec go = function
    | [] -> failwith "unknown pattern"
    | (k, r) :: rest -> if k = name then r else go rest in
  go pattern_table

(* ---- decoders for trees and the selector IR ---- *)
let bool_ x = (atom x = "1" || atom x = "true")
let opt_ f = function A "none" -> None | L [A "some"; x] -> Some (f x) | _ -> failwith "opt"
let list_ f = function L l -> List.map f l | A _ -> failwith "list"
let rec pyval_ = function
  | A "none" -> PNone
  | L [A "str"; s] -> PStr (str_ s)
  | L [A "bytes"; o] -> PBytes (opt_ str_ o)
  | L [A "list"; items; r] -> PList (list_ pyval_ items, str_ r)
  | L [A "other"; r] -> POther (str_ r)
  | _ -> failwith "pyval"
let kind_ x = match int_ x with 0 -> KText | 1 -> KComment | 2 -> KCData | 3 -> KPI | 4 -> KDoctype | 5 -> KDecl | _ -> failwith "kind"
let rec node_ = function
  | L [A "e"; name; prefix; ns; attrs; kids] ->
    Elem (str_ name, opt_ str_ prefix, opt_ str_ ns,
          list_ (function L [full; kns; kname; v] ->
                   ({ k_full = str_ full; k_ns = opt_ str_ kns; k_name = opt_ str_ kname }, pyval_ v)
                 | _ -> failwith "attr") attrs,
          list_ node_ kids)
  | L [A "s"; k; s] -> Str (kind_ k, str_ s)
  | _ -> failwith "node"
let tree_ = function
  | L [A "tree"; xml; isdoc; n] -> { t_xml = bool_ xml; t_isdoc = bool_ isdoc; t_root = node_ n }
  | _ -> failwith "tree"
let cset_ = list_ (function L [a; b] -> (n_of_int (int_ a), n_of_int (int_ b)) | _ -> failwith "range")
let rec re_ = function
  | A "eps" -> Eps | A "behindstart" -> BehindStart | A "atstart" -> AtStart | A "atend" -> AtEnd
  | A "atendstrict" -> AtEndStrict
  | L [A "chr"; cs] -> Chr (cset_ cs)
  | L [A "seq"; a; b] -> Seq (re_ a, re_ b)
  | L [A "alt"; a; b] -> Alt (re_ a, re_ b)
  | L [A "rep"; g; mn; mx; r] ->
    Rep (bool_ g, nat_of_int (int_ mn), (match mx with A "inf" -> None | x -> Some (nat_of_int (int_ x))), re_ r)
  | L [A "look"; neg; r] -> Look (bool_ neg, re_ r)
  | L [A "behind"; neg; cs] -> Behind (bool_ neg, cset_ cs)
  | L [A "grp"; g; r] -> Grp (nat_of_int (int_ g), re_ r)
  | _ -> failwith "re"
let rec sel_ = function
  | A "null" -> SNull
  | L [A "sel"; tag; ids; classes; attrs; nths; subs; rel; rt; contains; langs; flags] ->
    Sel (opt_ (function L [A "tag"; n; p] -> { tg_name = str_ n; tg_prefix = opt_ str_ p } | _ -> failwith "tag") tag,
         list_ str_ ids, list_ str_ classes,
         list_ (function L [A "attr"; n; p; pat; xp] ->
                  { at_name = str_ n; at_prefix = str_ p; at_pat = opt_ re_ pat; at_xml_pat = opt_ re_ xp }
                | _ -> failwith "sattr") attrs,
         list_ (function L [A "nth"; a; n; b; ot; last; s] ->
                  SNth (z_of_string (atom a), bool_ n, z_of_string (atom b), bool_ ot, bool_ last, sl_ s)
                | _ -> failwith "nth") nths,
         list_ sl_ subs, sl_ rel, opt_ str_ rt,
         list_ (function L [A "contains"; tx; own] -> { ct_text = list_ str_ tx; ct_own = bool_ own }
                | _ -> failwith "contains") contains,
         list_ (list_ str_) langs, n_of_int (int_ flags))
  | _ -> failwith "sel"
and sl_ = function
  | L [A "sl"; sels; isnot; ishtml] -> SL (list_ sel_ sels, bool_ isnot, bool_ ishtml)
  | _ -> failwith "sl"
let ns_ = list_ (function L [k; v] -> (str_ k, str_ v) | _ -> failwith "ns")
let path_ = list_ (fun x -> nat_of_int (int_ x))
let show_path p = "(" ^ Stdlib.String.concat " " (List.map (fun i -> string_of_int (int_of_nat i)) p) ^ ")"
let show_paths ps = "(" ^ Stdlib.String.concat " " (List.map show_path ps) ^ ")"

let show_cset cs = "(" ^ Stdlib.String.concat " " (List.map (fun (a, b) -> Printf.sprintf "(%d %d)" (int_of_n a) (int_of_n b)) cs) ^ ")"
let rec show_re = function
  | Eps -> "eps" | BehindStart -> "behindstart" | AtStart -> "atstart" | AtEnd -> "atend" | AtEndStrict -> "atendstrict"
  | Chr cs -> "(chr " ^ show_cset cs ^ ")"
  | Seq (a, b) -> "(seq " ^ show_re a ^ " " ^ show_re b ^ ")"
  | Alt (a, b) -> "(alt " ^ show_re a ^ " " ^ show_re b ^ ")"
  | Rep (g, mn, mx, r) -> Printf.sprintf "(rep %d %d %s %s)" (if g then 1 else 0) (int_of_nat mn)
                            (match mx with None -> "inf" | Some m -> string_of_int (int_of_nat m)) (show_re r)
  | Look (neg, r) -> Printf.sprintf "(look %d %s)" (if neg then 1 else 0) (show_re r)
  | Behind (neg, cs) -> Printf.sprintf "(behind %d %s)" (if neg then 1 else 0) (show_cset cs)
  | Grp (g, r) -> Printf.sprintf "(grp %d %s)" (int_of_nat g) (show_re r)
let aop_ x = match atom x with "=" -> OpEq | "~=" -> OpWord | "|=" -> OpDash | "^=" -> OpPrefix | "$=" -> OpSuffix
  | "*=" -> OpSubstr | _ -> failwith "aop"

let show_strs l = "(" ^ Stdlib.String.concat " " (List.map show_str l) ^ ")"
let show_opt_re = function None -> "none" | Some r -> "(some " ^ show_re r ^ ")"
let b01 b = if b then "1" else "0"
let rec show_sel = function
  | SNull -> "null"
  | Sel (tag, ids, classes, attrs, nths, subs, rel, rt, contains, langs, flags) ->
    let tag_s = match tag with None -> "none"
      | Some t -> "(some (tag " ^ show_str t.tg_name ^ " " ^ show_opt show_str t.tg_prefix ^ "))" in
    let attrs_s = Stdlib.String.concat " " (List.map (fun a ->
      "(attr " ^ show_str a.at_name ^ " " ^ show_str a.at_prefix ^ " " ^ show_opt_re a.at_pat ^ " " ^ show_opt_re a.at_xml_pat ^ ")") attrs) in
    let nths_s = Stdlib.String.concat " " (List.map (fun (SNth (a, n, b, ot, last, s)) ->
      "(nth " ^ show_z a ^ " " ^ b01 n ^ " " ^ show_z b ^ " " ^ b01 ot ^ " " ^ b01 last ^ " " ^ show_sl s ^ ")") nths) in
    let subs_s = Stdlib.String.concat " " (List.map show_sl subs) in
    let cont_s = Stdlib.String.concat " " (List.map (fun c -> "(contains " ^ show_strs c.ct_text ^ " " ^ b01 c.ct_own ^ ")") contains) in
    let langs_s = Stdlib.String.concat " " (List.map show_strs langs) in
    "(sel " ^ tag_s ^ " " ^ show_strs ids ^ " " ^ show_strs classes ^ " (" ^ attrs_s ^ ") (" ^ nths_s ^ ") (" ^ subs_s ^ ") "
    ^ show_sl rel ^ " " ^ show_opt show_str rt ^ " (" ^ cont_s ^ ") (" ^ langs_s ^ ") " ^ string_of_int (int_of_n flags) ^ ")"
and show_sl (SL (sels, isnot, ishtml)) =
  "(sl (" ^ Stdlib.String.concat " " (List.map show_sel sels) ^ ") " ^ b01 isnot ^ " " ^ b01 ishtml ^ ")"

(* ---- search aid (NOT part of the model): size of the full backtracking tree of an expression on a subject,
   counted with a cap so that exponential cases stop early.  Mirrors Regex.ends (all ends are enumerated). *)
exception Cap_reached
exception Found_one
let work_count (r : re) (s : n list) (start : int) (cap : int) : int =
  let arr = Array.of_list (List.map int_of_n s) in
  let n = Array.length arr in
  let cnt = ref 0 in
  let tick () = incr cnt; if !cnt > cap then Stdlib.raise Cap_reached in
  let mem c cs = List.exists (fun (a, b) -> int_of_n a <= c && c <= int_of_n b) cs in
  let dec = function None -> None | Some O -> Some O | Some (S m) -> Some m in
  let rec m r i (k : int -> unit) : unit =
    tick ();
    match r with
    | Eps -> k i
    | Chr cs -> if i < n && mem arr.(i) cs then k (i + 1)
    | Seq (a, b) -> m a i (fun j -> m b j k)
    | Alt (a, b) -> m a i k; m b i k
    | Rep (g, mn, mx, body) -> rep body g (int_of_nat mn) mx i k
    | Look (neg, r') ->
      let found = (try m r' i (fun _ -> Stdlib.raise Found_one); false with Found_one -> true) in
      if found <> neg then k i
    | Behind (neg, cs) -> let ok = if i > 0 then (mem arr.(i - 1) cs) <> neg else neg in if ok then k i
    | BehindStart | AtStart -> if i = 0 then k i
    | AtEnd -> if i = n || (i = n - 1 && arr.(i) = 10) then k i
    | AtEndStrict -> if i = n then k i
    | Grp (_, r') -> m r' i k
  and rep body g mn mx i k =
    let more () = if mx <> Some O then m body i (fun j -> if j > i then rep body g (max (mn - 1) 0) (dec mx) j k) in
    if mn > 0 then more () else if g then (more (); k i) else (k i; more ()) in
  (try m r start (fun _ -> ()) with Cap_reached -> ());
  !cnt

let cur_tree = ref { t_xml = false; t_isdoc = false; t_root = Str (KText, []) }
let cur_ns = ref []
let cur_sl = ref (SL ([], false, false))

let handle (e : sexp) : Stdlib.String.t =
  match e with
  | L [A "rematch"; name; i; s] ->
    (match rmatch (find_pattern (key_ name)) (str_ s) (nat_of_int (int_ i)) with
     | None -> "none"
     | Some (j, caps) -> Printf.sprintf "(some %d %s)" (int_of_nat j) (show_caps caps))
  | L [A "endscount"; name; i; s] ->
    string_of_int (int_of_nat (ends_count (find_pattern (key_ name)) (str_ s) (nat_of_int (int_ i))))
  | L [A "work"; name; i; s; cap] ->
    string_of_int (work_count (find_pattern (key_ name)) (str_ s) (int_ i) (int_ cap))
  | L [A "work_re"; r; i; s; cap] -> string_of_int (work_count (re_ r) (str_ s) (int_ i) (int_ cap))
  | L [A "endscount_re"; r; i; s] ->
    string_of_int (int_of_nat (ends_count (re_ r) (str_ s) (nat_of_int (int_ i))))
  | L [A "research"; name; s] ->
    (match rsearch (find_pattern (key_ name)) (str_ s) with
     | None -> "none"
     | Some ((a, b), caps) -> Printf.sprintf "(some %d %d %s)" (int_of_nat a) (int_of_nat b) (show_caps caps))
  | L [A "finditer"; name; s] ->
    "(" ^ Stdlib.String.concat " " (List.map (fun ((a, b), caps) ->
      Printf.sprintf "(%d %d %s)" (int_of_nat a) (int_of_nat b) (show_caps caps))
      (finditer (find_pattern (key_ name)) (str_ s))) ^ ")"
  | L [A "parse_value"; t; v] -> show_res (show_opt show_pv) (parse_value (str_ t) (str_ v))
  | L [A "match_range"; t; mn; mx; v; inr] ->
    let o = function A "none" -> None | L [A "some"; x] -> Some (str_ x) | _ -> failwith "opt" in
    show_res show_bool (match_range (str_ t) (o mn) (o mx) (o v) (atom inr = "true"))
  | L [A "validate_week"; y; w] -> show_res show_bool (validate_week (z_of_string (atom y)) (z_of_string (atom w)))
  | L [A "validate_day"; y; m; d] ->
    show_bool (validate_day (z_of_string (atom y)) (z_of_string (atom m)) (z_of_string (atom d)))
  | L [A "iso_weeks"; y] -> show_z (iso_weeks (z_of_string (atom y)))
  | L [A "settree"; t] -> cur_tree := tree_ t; "ok"
  | L [A "setsel"; ns; sl] -> cur_ns := ns_ ns; cur_sl := sl_ sl; "ok"
  | L [A "match"; p] -> show_res show_bool (api_match bidi_of !cur_tree !cur_ns !cur_sl (path_ p))
  | L [A "select"; p; lim] ->
    show_res show_paths (api_select bidi_of !cur_tree !cur_ns !cur_sl (path_ p) (z_of_string (atom lim)))
  | L [A "filter"; p] -> show_res show_paths (api_filter bidi_of !cur_tree !cur_ns !cur_sl (path_ p))
  | L [A "closest"; p] -> show_res (show_opt show_path) (api_closest bidi_of !cur_tree !cur_ns !cur_sl (path_ p))
  | L [A "attr_template"; op; v; ic; dotall] -> show_re (attr_template (aop_ op) (str_ v) (bool_ ic) (bool_ dotall))
  | L [A "compile"; p; cu] ->
    let custom = match cu with A "none" -> None
      | L [A "some"; L kvs] -> Some (List.map (function L [k; v] -> (str_ k, str_ v) | _ -> failwith "kv") kvs)
      | _ -> failwith "custom" in
    show_res show_sl (compile (str_ p) custom)
  | L [A "unescape"; s; m] -> show_str (css_unescape (str_ s) (bool_ m))
  | L [A "escape"; s] -> show_str (escape (str_ s))
  | L [A "context"; p; i] ->
    let ((ctx, line), col) = get_pattern_context (str_ p) (z_of_string (atom i)) in
    "(" ^ show_str ctx ^ " " ^ show_z line ^ " " ^ show_z col ^ ")"
  | L [A "linecol"; p; i] ->
    let (l, c) = line_col (str_ p) (nat_of_int (int_ i)) in "(" ^ show_z l ^ " " ^ show_z c ^ ")"
  | L [A "pretty"; s] -> show_opt show_str (pretty (str_ s))
  | L [A "lru"; mx; L ops] ->
    let (outs, size) = lru_trace (nat_of_int (int_ mx))
        (List.map (function A "p" -> None | x -> Some (nat_of_int (int_ x))) ops) in
    Printf.sprintf "((%s) %d)" (Stdlib.String.concat " " (List.map (fun o -> string_of_int (int_of_nat o)) outs)) (int_of_nat size)
  | L [A "langfilter"; r; t] -> show_bool (extended_language_filter (str_ r) (str_ t))
  | _ -> failwith "unknown command"

let () =
  try
    while true do
      let line = input_line stdin in
      if Stdlib.String.length line > 0 then begin
        let out = (try handle (parse_sexp line) with
                   | Stack_overflow -> "(error stack_overflow)"
                   | Failure m -> "(error " ^ m ^ ")"
                   | Not_found -> "(error not_found)") in
        print_string out; print_char '\n'
      end
    done
  with End_of_file -> ()
