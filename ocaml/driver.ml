(* driver.ml — reads one S-expression per line, evaluates the extracted model, prints one
   result per line.  Only glue: integer <-> nat/N conversion, S-expression reader/printer. *)
open Sv

type sexp = A of string | L of sexp list

let parse_sexp (s : string) : sexp =
  let n = String.length s in
  let pos = ref 0 in
  let rec skip () = if !pos < n && (s.[!pos] = ' ' || s.[!pos] = '\t') then (incr pos; skip ()) in
  let rec parse () =
    skip ();
    if !pos >= n then failwith "eof"
    else if s.[!pos] = '(' then begin
      incr pos;
      let items = ref [] in
      let rec loop () =
        skip ();
        if !pos >= n then failwith "unclosed"
        else if s.[!pos] = ')' then incr pos
        else (items := parse () :: !items; loop ()) in
      loop (); L (List.rev !items)
    end else begin
      let st = !pos in
      while !pos < n && s.[!pos] <> ' ' && s.[!pos] <> '(' && s.[!pos] <> ')' do incr pos done;
      A (String.sub s st (!pos - st))
    end in
  parse ()

let rec nat_of_int (i : int) : nat = if i <= 0 then O else S (nat_of_int (i - 1))
let rec int_of_nat (n : nat) : int = match n with O -> 0 | S k -> 1 + int_of_nat k
let rec pos_of_int (i : int) : positive =
  if i = 1 then XH else if i land 1 = 0 then XO (pos_of_int (i lsr 1)) else XI (pos_of_int (i lsr 1))
let n_of_int (i : int) : n = if i = 0 then N0 else Npos (pos_of_int i)
let rec int_of_pos (p : positive) : int = match p with XH -> 1 | XO q -> 2 * int_of_pos q | XI q -> 2 * int_of_pos q + 1
let int_of_n (x : n) : int = match x with N0 -> 0 | Npos p -> int_of_pos p

let atom = function A s -> s | L _ -> failwith "atom expected"
let int_ x = int_of_string (atom x)
let str_ = function L l -> List.map (fun x -> n_of_int (int_ x)) l | A _ -> failwith "list expected"
let key_ x = let s = atom x in List.init (String.length s) (fun i -> n_of_int (Char.code s.[i]))

let show_str (s : n list) = "(" ^ String.concat " " (List.map (fun c -> string_of_int (int_of_n c)) s) ^ ")"
let show_caps caps =
  "(" ^ String.concat " " (List.map (fun (g, (a, b)) ->
    Printf.sprintf "(%d %d %d)" (int_of_nat g) (int_of_nat a) (int_of_nat b)) caps) ^ ")"

let find_pattern name =
  let rec go = function
    | [] -> failwith "unknown pattern"
    | (k, r) :: rest -> if k = name then r else go rest in
  go pattern_table

let handle (e : sexp) : string =
  match e with
  | L [A "rematch"; name; i; s] ->
    (match rmatch (find_pattern (key_ name)) (str_ s) (nat_of_int (int_ i)) with
     | None -> "none"
     | Some (j, caps) -> Printf.sprintf "(some %d %s)" (int_of_nat j) (show_caps caps))
  | L [A "research"; name; s] ->
    (match rsearch (find_pattern (key_ name)) (str_ s) with
     | None -> "none"
     | Some ((a, b), caps) -> Printf.sprintf "(some %d %d %s)" (int_of_nat a) (int_of_nat b) (show_caps caps))
  | L [A "finditer"; name; s] ->
    "(" ^ String.concat " " (List.map (fun ((a, b), caps) ->
      Printf.sprintf "(%d %d %s)" (int_of_nat a) (int_of_nat b) (show_caps caps))
      (finditer (find_pattern (key_ name)) (str_ s))) ^ ")"
  | _ -> failwith "unknown command"

let () =
  try
    while true do
      let line = input_line stdin in
      if String.length line > 0 then begin
        let out = (try handle (parse_sexp line) with
                   | Stack_overflow -> "(error stack_overflow)"
                   | Failure m -> "(error " ^ m ^ ")"
                   | Not_found -> "(error not_found)") in
        print_string out; print_char '\n'
      end
    done
  with End_of_file -> ()
